"""The statement catalogue: the vocabulary of the generated valid class (DESIGN.md section 5).

Every variant is canonical free-form text of ONE statement (lower case, single blanks).
Its token sequence is obtained with the harness lexer (mbt/lexer.py), which is independent
of fparser.  Ids are 1-based positions in the lists below and are the integers the TLA+
specifications (Grammar.tla etc.) carry in their `v` field; append only, never reorder.

flags:  std=8      only valid from Fortran 2008
        one=True   belongs to the F77/F90 subset handled by fparser1 (C19)
        req='do'   needs an enclosing DO construct, 'proc' a subprogram, 'fun' a function
        where/forall=True   may appear in a WHERE / FORALL body
        bdata=True may appear in BLOCK DATA ; blk=True may appear in a BLOCK spec part
        mod=False  not allowed in a module specification part
        solo=True  the statement triggers a known finding of fparser1: it is used alone (variant sweep), never in simulated programs,
                   so that two known findings cannot meet in one program
        reorders=True  fparser prints the parts of the statement in another order (an observation): left out of the token law of C02
"""
import os


def V(text, **kw):
    d = {"text": text, "std": 3, "one": False, "req": "", "where": False, "forall": False,
         "bdata": False, "blk": False, "mod": True, "proc": True, "head": False, "solo": False, "reorders": False}
    d.update(kw)
    return d


# ----------------------------------------------------------------------------- action statements
SIMPLE = [
    V("x = 1", one=True, where=True, forall=True),                                   # 1
    V("a(i) = b(i, j) + 2.0 * x", one=True, forall=True),                            # 2
    V("x = -y ** 2", one=True),
    V("flag = x > y .and. .not. (y <= z)", one=True),
    V("s = 'abc' // t(1:3)", one=True),
    V("x = sin(y) + cos(z) * abs(x)", one=True),
    V("obj%f1 = 3"),
    V("obj%arr(i)%c = 4"),
    V("p => a(1:5)"),
    V("pp => null()"),                                                                # 10
    V("x = (1.0e-3 + 2.5d0) / 3_8", one=True),
    V("call sub1(x, y)", one=True),
    V("call sub2", one=True),
    V("call obj%meth(1, key=2)"),
    V("call sub3(*10, x)", one=True),
    V("print *, x, y", one=True),
    V("print '(a)', s", one=True),
    V("print 100, i, x, s", one=True),
    V("write(*, *) x", one=True),
    V("write(6, 100) i, x, s", one=True),                                             # 20
    V("write(unit=6, fmt='(a,i3)', advance='no') s, i", one=True),
    V("read(*, *) x, y", one=True),
    V("read(5, 100, end=10, err=10) i", one=True),
    V("open(unit=10, file='f.dat', status='old', iostat=ios)", one=True),
    V("close(10)", one=True),
    V("rewind 10", one=True),
    V("backspace(10)", one=True),
    V("endfile 10", one=True),
    V("inquire(file='f.dat', exist=flag)", one=True),
    V("flush(10)"),                                                                   # 30
    V("wait(10)"),
    V("allocate(w(n, n), stat=ierr)", one=True),
    V("allocate(al(10))", one=True),
    V("deallocate(w)", one=True),
    V("deallocate(w, al, stat=ierr)", one=True),
    V("nullify(p)", one=True),
    V("if (x > 0) y = 1", one=True),
    V("if (flag) call sub2", one=True),
    V("goto 10", one=True),
    V("go to 10", one=True),                                                          # 40
    V("go to (10, 10), i", one=True),
    V("if (x) 10, 10, 10", one=True),
    V("stop", one=True),
    V("stop 1", one=True),
    V("stop 'msg'", one=True),
    V("return", one=True, req="proc"),
    V("continue", one=True),
    V("exit", one=True, req="do"),
    V("cycle", one=True, req="do"),
    V("where (a > 0) a = 1", one=True, where=True),                                   # 50
    V("forall (i = 1:n) a(i) = i", forall=True),
    V("forall (i = 1:n, j = 1:n, i /= j) b(i, j) = 0", forall=True),
    V("x = f(1)(2)"),
    V("x = a(i)%b(j)%c"),
    V("s(1:2) = 'ab'", one=True),
    V("a = (/ (i, i = 1, 10) /)", one=True, where=True),
    V("a = [(real(i), i = 1, 10)]", where=True),
    V("x = merge(1, 2, flag)", one=True),
    V("i = size(a, 1)", one=True),
    V("x = real(i, kind=8)", one=True),                                               # 60
    V("zc = cmplx(1.0, 2.0)", one=True),
    V("x = 1.0_8 + 2.e3_k"),
    V("i = b'101' + o'17' + z'ff'"),
    V("s = \"a'b\" // 'c\"d' // 'e''f'", one=True),
    V("x = y .myop. z"),
    V("x = .unop. y"),
    V("flag = a .eqv. b .neqv. c", one=True),
    V("flag = x == y .or. x /= z .or. x .lt. y", one=True),
    V("a(1:n:2) = b(n:1:-2, 3)", one=True, where=True, forall=True),
    V("x = a(i + 1) * (b(i, j - 1) - c) / d ** 2 ** k", one=True),                    # 70
    V("x = ((a + b) * (c - (d + e)))", one=True),
    V("s = s(i:) // s(:j) // s(:)", one=True),
    V("zc = (1.0, -2.0) * zc", one=True),
    V("write(*, '(a, i3, f8.2)') 'v=', i, x", one=True),
    V("write(*, *) (a(i), i = 1, n)", one=True),
    V("read(10, *, iostat=ios) (b(i, j), j = 1, n)", one=True),
    V("print *, 'it''s', \"say \"\"hi\"\"\"", one=True),
    V("call sub4(a(:, 1), n=size(a, 1), f=.true.)"),
    V("x = f(g(h(1), 2), 3)", one=True),
    V("x = 1.5e+10 - 2.5d-3 + 1.e5 * .5 - 3."),                                       # 80
    V("flag = .not. flag .and. (i >= 1 .or. j < 2) .eqv. .true.", one=True),
    V("i = -i + (-j) * (+k)", one=True),
    V("x = a%b%c(1)%d", ),
    V("call obj%inner%run()"),
    V("allocate(character(len=10) :: cs)"),
    V("allocate(obj2, source=obj)"),
    V("open(10, file=fname, form='unformatted', access='direct', recl=8, err=10)", one=True),
    V("close(unit=10, status='delete', iostat=ios)", one=True),
    V("inquire(unit=10, opened=flag, name=s)", one=True),
    V("inquire(iolength=n) a, b"),                                                    # 90
    V("rewind(unit=10, err=10)", one=True),
    V("x = (a(1) + (b(2) * (c(3) - (d(4) / (e(5) + (f6(6) - (g(7) * (h(8) + (p(9) - (q(10) / r(11)))))))))))"),
    V("s = 'a' // 'b' // 'c' // 'd' // 'e' // 'f' // 'g' // 'h' // 'i' // 'j' // 'k' // 'l'", one=True),
    V("x = 1.e1 + 2.e2 + 3.e3 + 4.e4 + 5.e5 + 6.e6 + 7.e7 + 8.e8 + 9.e9 + 1.e10 + 1.e11"),
    V("s = '_F2PY_STRING_CONSTANT_1_' // 'F2PY_EXPR_TUPLE_1'", one=True),
    V("x = f(a) + f(a) + g((a)) + g((a))", one=True),
    V("error stop", std=8),
    V("error stop 'bad'", std=8),
    V("allocate(w2, mold=w)", std=8),
    V("open(newunit=iu, file='g.dat')", std=8),                                       # 100
    V("sync all", std=99),       # not supported by fparser2 (observation, DESIGN.md 5)
    V("flag = x .ge. y .or. x .le. z .and. x .gt. 0 .or. x .ne. 1 .and. x .eq. 2", one=True),
    V("if (x .lt. 0) goto 10", one=True),
    V("if (i == 1) print *, 'one'", one=True),
    V("a(:) = 0.0", one=True, where=True),
    V("b(:, j) = a", one=True, where=True),
    V("x = y ** (-2)", one=True),
    V("x = -a * b + c / d - e", one=True),
    V("i = mod(j, 2) + int(x) + nint(y) + max(i, j, k) + min(1, 2)", one=True),
    V("s = trim(adjustl(t)) // repeat('-', 3)", one=True),                            # 110
    V("p => obj%next"),
    V("obj%next => null()"),
    V("nullify(p, q)", one=True),
    V("call sub5(1, 2.0, 'c', .true., (1.0, 2.0), [1, 2], x=3)"),
    V("write(unit=*, fmt=*) x", one=True),
    V("write(10) x, y", one=True),
    V("read(10) x", one=True),
    V("read *, x", one=True),
    V("read 100, x, y", one=True),
    V("print *", one=True),                                                           # 120
    V("stop 'a' // 'b'"),
    V("x = a .myop. b .and. c"),
    V("x = .unop. a .myop. .unop. b"),
    V("flag = a .lt. b .myop. c .gt. d"),
    # placeholder stress: ten or more top-level bracketed groups / non-trivial strings / exponent literals
    V("x = f(p + 1) + f(q * 2) + f(r - 3) + g(s1, 4) + f(t / 5) + f(u ** 6) + h(v, w) + f(-7) + f(y + 8) + f(z + 9) + g(aa, 10) + f(bb - 11)", one=True),          # 125
    V("s = 'a 1' // 'a 2' // 'a 3' // 'a 4' // 'a 5' // 'a 6' // 'a 7' // 'a 8' // 'a 9' // 'a 10' // 'a 11'", one=True),
    V("call sub6((a + 1), (a + 2), (a + 3), (a + 4), (a + 5), (a + 6), (a + 7), (a + 8), (a + 9), (a + 10), (a + 11))", one=True),
    V("a(1:n:(k + 1)) = 0", one=True, where=True),
    V("b(k::inc(k - 1), 1) = b(::(2), (j))", one=True),
    V("a = (/ 1, 2, 1, 2, 3, 1, 2, 1, 2, 3, 1, 2, 1, 2, 3, 1, 2, 9 /)", one=True, where=True),                          # 130
    V("call sub7(a, b, a, b, a, b, a, b, a, b, a, b, a, b, a, b, a, b, 1, 1, 'c', 'c')", one=True),
    V("x = f((a + b)) + g(a + b) + h((a + b), a + b)", one=True),
    V("s = '\"a b\"' // \"a b\" // 'a b'", one=True),
    # names that begin like keywords
    V("concurrent_idx = 1", one=True),
    V("contiguous = block + critical", one=True),                                                                        # 135
    V("if (error) stop", one=True),
    V("endif_count = elsewhere_flag + dowhile", one=True),
    V("x = 1.e-3.eq.y", one=True),
    V("flag = x.lt.1.and.y.gt.2.e0", one=True),
    V("print *, a(i), (b(i, j), j = 1, n), 'x', c%d", ),                                                                 # 140
    V("write(*, fmt=100, err=10, iostat=ios) x"),
    V("read(unit=5, fmt=*, end=10) x", one=True),
    V("x = y%z(1)%w(2, 3)%v"),
    V("deallocate(obj%arr, stat=ierr, errmsg=msg)"),
    V("allocate(real(kind=8) :: w3(n), stat=ierr)"),                                                                      # 145
    V("p(1:n) => q"),
    V("call sub8(f=g, x=(/ 1.0, 2.0 /), n=size([1, 2, 3]))"),
    V("x = a ** b ** c * d / e - f + g // h == i .and. j .or. k .eqv. l"),
    V("x = -(-(-a))", one=True),
    V("x = (((a)))", one=True),                                                                                          # 150
    V("x(index('a b c', c)) = len('d  e')", one=True),
    V("if (s == 'a b') t(idx('x y')) = 'p q'", one=True),
    V("where (a > f('m n')) a(:) = g('o p')", one=True, where=True),
    # control lists with the keywords in another order and blanks around '='
    V("open(file = fname, unit = 10, status = 'old')", one=True),                                                         # 154
    V("close(status = 'keep', unit = 10)", one=True),
    V("read(fmt = *, unit = 5) x", one=True),
    V("write(fmt = 100, unit = 6, iostat = ios) x", one=True),
    V("inquire(exist = flag, file = 'f.dat', unit = 10)", one=True),
    V("rewind(err = 10, unit = 10)", one=True),
    V("allocate(w(n), source = w2, stat = ierr)"),                                                                        # 160
    V("call sub9(key2 = 2, key1 = x)"),
    V("backspace(iostat = ios, unit = 10)", one=True),
    V("flush(unit = 10, iostat = ios)"),
    V("wait(unit = 10, iostat = ios)"),
    V("endfile(unit = 10)", one=True),
]

# ------------------------------------------------------------------- specification statements
DECL = [
    V("integer :: i, j, k", one=True, blk=True, bdata=True),                          # 1
    V("real :: a(10), b(10, 10), x, y, z", one=True, blk=True, bdata=True),
    V("integer, parameter :: n = 10", one=True, blk=True),
    V("real(kind=8), dimension(n) :: v", one=True, blk=True),
    V("character(len=10) :: s, t", one=True, blk=True),
    V("character(len=*), parameter :: c = 'it''s'", one=True, blk=True),
    V("logical :: flag = .true.", one=True, blk=True),
    V("complex :: zc = (1.0, -2.0)", one=True, blk=True),
    V("double precision d1", one=True, blk=True, bdata=True),
    V("integer(4) i4", one=True, blk=True),                                           # 10
    V("real, allocatable :: w(:, :)", one=True, blk=True),
    V("real, pointer :: p(:) => null()", blk=True),
    V("type(t1) :: obj", one=True, blk=True),
    V("class(t1), allocatable :: cobj", blk=True),
    V("integer, intent(in) :: arg1", one=True, mod=False, req="proc"),
    V("real, dimension(:), intent(inout) :: arg2", one=True, mod=False, req="proc"),
    V("real, save :: sv", one=True, blk=True),
    V("integer, target :: tg", one=True, blk=True),
    V("character*8 c8", one=True, blk=True, bdata=True),
    V("real*8 r8", one=True, blk=True, bdata=True),                                   # 20
    V("integer :: arr(3) = (/ 1, 2, 3 /)", one=True, blk=True),
    V("integer :: arr2(2) = [1, 2]", blk=True),
    V("procedure(iface), pointer :: pp", blk=True),
    V("external :: ext1", one=True, blk=True),
    V("intrinsic :: sin, cos", one=True, blk=True),
    V("dimension q(5)", one=True, blk=True, bdata=True),
    V("save", one=True, bdata=True),
    V("common /blk/ c1, c2", one=True, bdata=True),
    V("equivalence (e1, e2)", one=True, bdata=True),
    V("data i /1/, j /2/", one=True, blk=True, bdata=True),                           # 30
    V("parameter (pi = 3.14159)", one=True, blk=True, bdata=True),
    V("namelist /nml/ i, j", one=True, blk=True),
    V("optional :: arg1", one=True, mod=False, req="proc"),
    V("public :: foo", one=True, proc=False),
    V("private", one=True, proc=False),
    V("volatile :: vv", blk=True),
    V("allocatable :: al(:)", one=True, blk=True),
    V("pointer :: pt", one=True, blk=True),
    V("target :: tt", one=True, blk=True),
    V("integer, dimension(2, 3) :: m1 = reshape((/ 1, 2, 3, 4, 5, 6 /), (/ 2, 3 /))", one=True, blk=True),   # 40
    V("real(kind=8), parameter :: eps = 1.0e-6_8, big = 1.d+30", blk=True),
    V("character(len=5, kind=1) :: s5", blk=True),
    V("character(10) :: s10", one=True, blk=True),
    V("character(len=:), allocatable :: sdef", blk=True),
    V("character :: ch*4, cv(3)*2", one=True, blk=True),
    V("integer(kind=4), dimension(:), allocatable, save :: ivec", one=True, blk=True),
    V("real :: u(0:n), w3(-1:1, *)", one=True, mod=False, req="proc"),
    V("real, dimension(:, :), pointer :: p2 => null()", blk=True),
    V("type(t1), dimension(:), allocatable :: objs", one=True, blk=True),
    V("logical, parameter :: t = .true., f = .false.", one=True, blk=True),           # 50
    V("data (q(i), i = 1, 5) /5 * 0.0/", one=True, blk=True, bdata=True),
    V("data s /'ab'/, x, y /2 * 1.0/", one=True, blk=True, bdata=True),
    V("implicit real (a - h, o - z), integer (i - n)", one=True, bdata=True),
    V("common // c3, c4(2)", one=True),
    V("equivalence (e1, e2), (e3(1), e4)", one=True, bdata=True),
    V("save :: /blk/, sv2", one=True, bdata=True),
    V("intent(in) :: arg1", mod=False, req="proc"),
    V("value :: arg1", mod=False, req="proc"),
    V("protected :: pv", proc=False),
    V("asynchronous :: av", blk=True),                                                # 60
    V("bind(c, name='cname') :: cv1", proc=False),
    V("integer(c_int), bind(c) :: ci", proc=False),
    V("procedure(real), pointer :: fp => null()", blk=True),
    V("procedure(), pointer :: pq", blk=True),
    V("enumerator_holder = 1", std=99),      # placeholder slot, never generated (std=99)
    V("real, contiguous, pointer :: cp(:)", std=8, blk=True),
    V("real, codimension[*] :: co", std=8),
    V("integer :: cc[*]", std=99),   # coarray entity-decl not supported by fparser2
    V("type(t1), parameter :: tc = t1(1, 2.0)", blk=True),
    V("integer, parameter :: ks(3) = (/ (i * 2, i = 1, 3) /)", one=True, blk=True),   # 70
    V("real :: x1 = 1.0, x2 = -2.0e0, x3 = +3.d0", one=True, blk=True),
    V("dimension d2(2, 2), d3(n)", one=True, blk=True),
    V("external ext2, ext3", one=True, blk=True),
    V("class(*), pointer :: up", blk=True),
    V("integer, volatile :: iv", blk=True),
    V("integer :: lst(18) = (/ 1, 2, 1, 2, 3, 1, 2, 1, 2, 3, 1, 2, 1, 2, 3, 1, 2, 9 /)", one=True, blk=True),            # 76
    V("data lst /1, 2, 1, 2, 3, 1, 2, 1, 2, 3, 1, 2, 1, 2, 3, 1, 2, 9/", one=True, blk=True, bdata=True),
    V("real(kind) :: rk", blk=True),
    V("integer(kind=kind(1)) :: ik", blk=True),
    V("real :: concurrent, block, critical, contiguous, error", one=True, blk=True),                                     # 80
    V("equivalence (q1, q2, q3), (q4(1), q5(2))", one=True, bdata=True),
    V("common /blk2/ z1(3), z2 /blk3/ z3", one=True, bdata=True),
    V("dimension q6(n, m), q7(:), q8(2:n), q9(*), q10(n, 2:*)", mod=False, req="proc"),
    V("character(len=*), parameter :: fmt1 = '(a, \"x\", i3)'", one=True, blk=True),
    V("integer, public, parameter :: npub = 3", one=True, proc=False),                                                  # 85
    V("real, private, save :: rprv(2)", one=True, proc=False),
    V("integer, public :: ipub = 1, jpub", one=True, proc=False),
    V("character :: chl*(n + 1) = \"abc\", chm(2)*(f(2, 3)) = 'de'", one=True, blk=True),                              # 88
    V("character(kind=kf(1), len=lf(2, 3)) :: ckl", blk=True),
    V("character(lf(2, 3), kind=kf(1)) :: clk", blk=True),                                                               # 90
    V("character(lf(2, 3), kf(1)) :: cpos", blk=True),
    V("character(kind=kf(1)) :: ck1", blk=True),
    V("integer(kind=kf(2, 3)) :: ikf", blk=True),
    V("real(kf((2), 3)) :: rkf", one=True, blk=True),
]

USE = [
    V("use mod1", one=True),                                                          # 1
    V("use mod2, only: a1, b1 => c1", one=True),
    V("use, intrinsic :: iso_c_binding"),
    V("use mod3, r1 => r2", one=True),
    V("use mod4, only:", one=True),
    V("use mod5, only: operator(.myop.), assignment(=)"),
    V("use :: mod6"),
    V("use, non_intrinsic :: mod7, only: q1"),
]

IMPLICIT = [V("implicit none", one=True, bdata=True, blk=False)]

FORMAT = [
    V("format (1x, i5, f10.3, a)", one=True),                                         # 1
    V("format (2(i3, 1x), 'text', /, e12.4)", one=True),
    V("format (a, 3(1x, i2), :, /, 2f8.3, es12.4e2, l2, g10.3)", one=True),
    V("format ('a''b', \"c\"\"d\", 5x, tr2, tl1, t10, ss, sp, bn, bz)", one=True),
    V("format (i5.3, f10.0, e10.3e2, d12.4, a10, 2p, f5.1)", one=True),
    V("format (*(i3, ','))", std=8),
    V("format ()", one=True),
]

# ----------------------------------------------------------- derived types, interfaces, enums
COMP = [
    V("integer :: f1"),                                                               # 1
    V("real, pointer :: f2(:) => null()"),
    V("type(t1), pointer :: next => null()"),
    V("character(len=10) :: nm = 'x'"),
    V("real, dimension(3) :: vec = (/ 0.0, 0.0, 0.0 /)"),
    V("procedure(iface), pointer, nopass :: fptr => null()"),
    V("integer, private :: hidden"),
    V("class(t1), allocatable :: poly"),
    V("real, allocatable :: g(:, :)"),
    V("private", head=True),                                                          # 10
    V("sequence", head=True),
    V("real, codimension[*] :: cf", std=8),
    V("real, contiguous, pointer :: cp2(:)", std=8),                                                                     # 13
    V("procedure(iface), pointer, pass(self) :: fp2"),
    V("integer :: cnt(18) = (/ 1, 2, 1, 2, 3, 1, 2, 1, 2, 3, 1, 2, 1, 2, 3, 1, 2, 9 /)"),
    V("character(len=lf(2, 3)) :: cmpn*(n + 1) = 'q r'"),
    V("character(kind=kf(1), len=lf(2, 3)) :: cmpk"),
]
TBIND = [
    V("procedure :: m1"),                                                             # 1
    V("procedure, nopass :: m2 => impl"),
    V("generic :: g => m1"),
    V("final :: fin"),
    V("procedure, pass(self), public :: m3 => impl3"),
    V("procedure(iface), deferred :: m4"),
    V("generic, public :: operator(+) => m1"),
    V("generic :: assignment(=) => m1"),
    V("private", head=True),
    V("procedure :: m5, m6 => impl6", std=99),   # F2008 binding list not supported                                         # 10
]
ENUMR = [
    V("enumerator :: red = 1, blue"),
    V("enumerator green"),
    V("enumerator :: c1 = 4, c2 = c1 + 1"),
]
MODPROC = [
    V("module procedure p1, p2"),
    V("module procedure p3"),
    V("procedure :: p4", std=8),
]

# ------------------------------------------------------------------------- construct openers
OPEN = {
    "if": [V("if (x > 0) then", one=True), V("if (flag .and. (i == 1)) then", one=True)],
    "do": [V("do i = 1, n", one=True), V("do i = 1, n, 2", one=True), V("do while (x > 0)", one=True), V("do", one=True),
           V("do j = n, 1, -1", one=True), V("do, i = 1, n"),
           V("do concurrent_idx = 1, n, 2", one=True), V("do concurrent = 1, 10", one=True), V("do while (a(n) > f((x)))", one=True)],
    # labelled DO: the label is supplied by the grammar ({L})
    "dol": [V("do {L} i = 1, n", one=True), V("do {L}, i = 1, n", one=True), V("do {L} while (x > 0)", one=True), V("do {L}", one=True)],
    "doconc": [V("do concurrent (i = 1:n)", std=8), V("do concurrent (i = 1:n, j = 1:n, i /= j)", std=8)],
    "selcase": [V("select case (i)", one=True), V("select case (s(1:1))", one=True)],
    "seltype": [V("select type (cobj)"), V("select type (q => cobj)")],
    "where": [V("where (a > 0)", one=True), V("where (a > 0 .and. a < 10)", one=True)],
    "forall": [V("forall (i = 1:n)"), V("forall (i = 1:n, j = 1:n, a(i) > 0)")],
    "assoc": [V("associate (q => x + y, r => z)"), V("associate (q => obj%f1)")],
    "block": [V("block", std=8)],
    "crit": [V("critical", std=8)],
    "type": [V("type :: {N}"), V("type {N}"), V("type, extends(t2) :: {N}"), V("type, public :: {N}", proc=False),
             V("type, abstract :: {N}"), V("type, bind(c) :: {N}"), V("type :: {N}(k, l)", std=99)],
    "iface": [V("interface"), V("interface gen"), V("interface operator(.myop.)"), V("interface assignment(=)"),
              V("abstract interface"), V("interface operator(+)"), V("interface read(formatted)")],
    "enum": [V("enum, bind(c)")],
}
# the generic-spec an END INTERFACE may repeat, per iface variant (index aligned with OPEN['iface'])
IFACE_SPEC = ["", "gen", "operator(.myop.)", "assignment(=)", "", "operator(+)", "read(formatted)"]
# type parameter definitions needed by the parameterised type opener variant 7
TYPE_PARAM_DEFS = ["integer, kind :: k", "integer, len :: l"]

MIDS = {
    "elif": [V("else if (y > 0) then", one=True), V("elseif (z < 0) then", one=True)],
    "else": [V("else", one=True)],
    "case": [V("case (1)", one=True), V("case (2:3, 5)", one=True), V("case default", one=True), V("case ('a':'c', 'x')", one=True),
             V("case (:0)", one=True), V("case (10:)", one=True)],
    "typeis": [V("type is (t1)"), V("class is (t1)"), V("class default"), V("type is (integer)"), V("type is (character(len=*))"),
               V("type is (real(kind=8))")],
    "elsewhere": [V("elsewhere (a < -1)", one=True), V("elsewhere", one=True), V("else where", one=True)],
    "tcontains": [V("contains")],
}
END_WORD = {
    "if": "if", "do": "do", "dol": "do", "doconc": "do", "selcase": "select", "seltype": "select", "where": "where",
    "forall": "forall", "assoc": "associate", "block": "block", "crit": "critical", "type": "type", "iface": "interface",
    "enum": "enum",
}

# ------------------------------------------------------------------------------ program units
UNIT = {
    "prog": [V("program {N}", one=True)],
    "sub": [V("subroutine {N}(arg1, arg2)", one=True), V("subroutine {N}", one=True), V("subroutine {N}()", one=True),
            V("recursive subroutine {N}(arg1, arg2)", one=True), V("pure subroutine {N}(arg1, arg2)"),
            V("elemental subroutine {N}(arg1, arg2)"), V("subroutine {N}(arg1, arg2) bind(c, name='c_{N}')"),
            V("subroutine {N}(arg1, *, arg2)", one=True), V("impure elemental subroutine {N}(arg1, arg2)")],
    "fun": [V("function {N}(arg1) result(res)", one=True), V("function {N}(arg1, arg2)", one=True), V("integer function {N}(arg1)", one=True),
            V("real(kind=8) function {N}()", one=True), V("recursive function {N}(arg1) result(res)", one=True),
            V("pure elemental real function {N}(arg1, arg2)"), V("function {N}(arg1) result(res) bind(c)"),
            V("character(len=10) function {N}(arg1)", one=True), V("type(t1) function {N}(arg1)")],
    "mod": [V("module {N}", one=True)],
    "smod": [V("submodule (parentmod) {N}", std=8), V("submodule (parentmod:sibling) {N}", std=8)],
    "bdata": [V("block data {N}", one=True), V("block data", one=True)],
}
UNIT_WORD = {"prog": "program", "sub": "subroutine", "fun": "function", "mod": "module", "smod": "submodule",
             "bdata": "block data", "main0": "program"}

F2008_INTRINSIC_NAMES = None  # filled lazily from the tree under test where needed (C17)

# ------------------------------------------------------------------------- extended catalogue
# catalogue/extended.json: statements written rule class by rule class (every optional part and
# alternative of the rules of Fortran2003.py sections 3-12 and of Fortran2008/), each validated
# with tools/try_variants.py before it was added.  They are appended to the lists above (ids stay
# append-only: the file is never reordered).  CORE[kind] = number of hand-written variants; the
# quick tier takes the extended variants i with (i + phase) % stride = 0 (see gen_tla).
CORE = {"s": len(SIMPLE), "decl": len(DECL), "use": len(USE), "format": len(FORMAT), "comp": len(COMP),
        "tbind": len(TBIND), "enumr": len(ENUMR)}


def _load_extended():
    import json as _json, os as _os
    path = _os.path.join(_os.path.dirname(_os.path.dirname(_os.path.abspath(__file__))), "catalogue", "extended.json")
    tabs = {"s": SIMPLE, "decl": DECL, "use": USE, "format": FORMAT, "comp": COMP, "tbind": TBIND, "enumr": ENUMR}
    for e in _json.load(open(path)):
        flags = {k: v for k, v in e.items() if k not in ("kind", "text", "slice")}
        tabs[e["kind"]].append(V(e["text"], **flags))


_load_extended()

# openers, construct parts and unit headers added with the extended catalogue (append-only; the F77/F90
# configurations keep MaxVar = 4 and never reach them)
OPEN["if"] += [V("if ((x > 0)) then"), V("if (a(i) > f((x)) .or. s == 'a) then') then")]
OPEN["do"] += [V("do i = 1, n + 1, k * 2"), V("do i = f(1), g(2, 3)"), V("do while (.not. done)"), V("do x = 1.0, 2.0, 0.5", std=99)]   # real DO variable: not supported by fparser2
OPEN["dol"] += [V("do {L} i = 1, n, 2"), V("do {L} j = n, 1, -1")]
OPEN["doconc"] += [V("do concurrent (i = 1:n:2)", std=8), V("do concurrent (i = 1:n, a(i) > 0)", std=8)]
OPEN["selcase"] += [V("select case (i + 1)"), V("select case (flag)"), V("select case (trim(s))")]
OPEN["seltype"] += [V("select type (q => obj%poly)")]
OPEN["where"] += [V("where (a(:) > 0.0 .and. b(:, 1) < f(2))")]
OPEN["forall"] += [V("forall (i = 1:n:2)"), V("forall (i = 1:n, j = 1:m:2)")]
OPEN["assoc"] += [V("associate (q => a(1:n), r => f(x) + 1)"), V("associate (q => 'a,b')")]
OPEN["type"] += [V("type, private :: {N}", proc=False), V("type, abstract, extends(t2) :: {N}"), V("type, bind(c), public :: {N}", proc=False)]
OPEN["iface"] += [V("interface write(unformatted)"), V("interface read(unformatted)"), V("interface write(formatted)"),
                  V("interface operator(.not.)"), V("interface operator(==)"), V("interface operator(//)")]
IFACE_SPEC += ["write(unformatted)", "read(unformatted)", "write(formatted)", "operator(.not.)", "operator(==)", "operator(//)"]
MIDS["elif"] += [V("else if (a(i) > 0 .and. s == 'then') then")]
MIDS["case"] += [V("case (-1)"), V("case (1, 3:5, 7:)"), V("case ('a')"), V("case (.true.)")]
MIDS["typeis"] += [V("type is (real)"), V("class is (t2)"), V("type is (complex(kind=8))"), V("type is (character(*))")]
MIDS["elsewhere"] += [V("elsewhere (a > f(1))")]
UNIT["sub"] += [V("subroutine {N}(*)"), V("subroutine {N}(arg1, arg2) bind(c)"), V("recursive pure subroutine {N}(arg1, arg2)")]
UNIT["fun"] += [V("recursive integer function {N}(arg1) result(res)"), V("integer pure function {N}(arg1)"), V("double precision function {N}(arg1)"),
                V("elemental function {N}(arg1)"), V("character*8 function {N}(arg1)"), V("class(t1) function {N}(arg1)"),
                V("integer(kind=4) recursive function {N}()")]
MODPROC += [V("module procedure :: p5", std=8), V("procedure p6, p7"), V("procedure :: p8, p9", std=8)]
# every combination of prefix / dummy-argument list (absent, empty, given) / suffix on the unit headers
UNIT["sub"] += [V("subroutine {N}() bind(c)"), V("subroutine {N}() bind(c, name='s_{N}')"), V("pure subroutine {N}()"), V("recursive subroutine {N}"),
                V("elemental subroutine {N}(arg1)"), V("module subroutine {N}(arg1)", std=99)]
UNIT["fun"] += [V("function {N}() bind(c)"), V("function {N}() result(res) bind(c, name='f_{N}')"), V("pure function {N}()"),
                V("real function {N}() result(res)"), V("elemental integer(kind=8) function {N}(arg1) result(res)"),
                V("function {N}(arg1, arg2) bind(c, name='f_{N}') result(res)", reorders=True)]   # printed with RESULT first (observation): left out of the token law of C02
# long character literals that hold the characters the reader gives a meaning to (always used, like the core variants)
_N_S, _N_D = len(SIMPLE), len(DECL)
SIMPLE += [V("s = 'a long literal with an ! inside it, then a & and a ; and a second ! further on in the text'", one=True),
           V("s = \"it's a long one as well: 'quoted', with % and ( and a lone ) before the end of it all\"", one=True),
           V("s = (d // 'a\\') // 'b\\\\' // f", one=True),
           V("call sub1('50%', \"x;y\", 'p&q', 'r!s')", one=True),
           V("x = f(g(h(a%b), 'c%d'), obj%arr(i)%c)"),
           V("x = f(f(f(1, -1.0), -1.0e0), +2.5d0)", one=True),
           V("allocate(w(-n:-1), al(-2:n), stat=ierr)", one=True)]
ALWAYS = {}
DECL += [V("real, codimension[2, min(n, m):*] :: co9", std=8), V("character(len=*), parameter :: long1 = 'a ! b & c ; d '' e \" f % g ( h ) i'", one=True, blk=True),
         # one COMMON statement that comes back to a block it has named before (the lists of the block are concatenated)
         V("common /b12/ q1 /b13/ q2 /b12/ q3", one=True), V("common // q4, q5 /b14/ q6 // q7", one=True)]
ALWAYS["s"] = set(range(_N_S + 1, len(SIMPLE) + 1))
ALWAYS["decl"] = set(range(_N_D + 1, len(DECL) + 1))



def table(kind):
    return {"s": SIMPLE, "decl": DECL, "use": USE, "implnone": IMPLICIT, "format": FORMAT, "comp": COMP,
            "tbind": TBIND, "enumr": ENUMR, "modproc": MODPROC}.get(kind) or OPEN.get(kind) or MIDS.get(kind) or UNIT.get(kind)


def ids(tab, pred=lambda v: True):
    return [i + 1 for i, v in enumerate(tab) if v["std"] != 99 and pred(v)]


def tla_set(xs):
    return "{" + ", ".join(str(x) for x in xs) + "}"


def tla_split(tab, xs):
    """Core ids as a literal set, extended ids through the tier's stride filter."""
    n = CORE.get(next((k for k, t in (("s", SIMPLE), ("decl", DECL), ("use", USE), ("format", FORMAT), ("comp", COMP),
                                      ("tbind", TBIND), ("enumr", ENUMR)) if t is tab), None), 10 ** 9)
    kind = next((k for k, t in (("s", SIMPLE), ("decl", DECL), ("use", USE), ("format", FORMAT), ("comp", COMP), ("tbind", TBIND), ("enumr", ENUMR)) if t is tab), None)
    always = ALWAYS.get(kind, set())
    core = [x for x in xs if x <= n or x in always]
    ext = [x for x in xs if x > n and x not in always]
    if not ext:
        return tla_set(core)
    return tla_set(core) + " \\cup Ext(" + tla_set(ext) + ")"


def do_term_ok(v):
    """May the statement terminate a non-block DO (R830: an action statement other than CONTINUE, GOTO, RETURN, STOP,
    EXIT, CYCLE, arithmetic IF)?  Conservative: IF / WHERE / FORALL statements carrying one of those are left out too."""
    import re
    t = v["text"]
    if v["req"] or re.search(r"\b(go ?to|return|stop|exit|cycle|continue|assign)\b", t) or re.match(r"if \(.*\) *\d+ *, *\d+", t):
        return False
    return True


def gen_tla(path):
    """Write specs/Catalogue_gen.tla: the variant id sets the grammar's guards need."""
    L = []
    A = L.append
    A("--------------------------- MODULE Catalogue_gen ---------------------------")
    A("(* GENERATED by mbt/catalogue.py from the statement catalogue - do not edit. *)")
    A("(* Extended variants (catalogue/extended.json) are taken with a stride in the quick tier: *)")
    A("(* environment VERIF_CAT_STRIDE / VERIF_CAT_PHASE, set by mbt/tlc.py (1 / 0 = all of them). *)")
    A("EXTENDS Naturals, IOUtils")
    A("Stride == atoi(IOEnv.VERIF_CAT_STRIDE)")
    A("Phase == atoi(IOEnv.VERIF_CAT_PHASE)")
    A("Ext(S) == IF Stride = 1 THEN S ELSE {i \\in S : (i + Phase) % Stride = 0}")
    A("SimpleAll == " + tla_split(SIMPLE, ids(SIMPLE)))
    A("Simple08 == " + tla_set(ids(SIMPLE, lambda v: v["std"] == 8)))
    A("SimpleNeedsDo == " + tla_set(ids(SIMPLE, lambda v: v["req"] == "do")))
    A("SimpleNeedsProc == " + tla_set(ids(SIMPLE, lambda v: v["req"] == "proc")))
    A("SimpleWhereOK == " + tla_set(ids(SIMPLE, lambda v: v["where"])))
    A("SimpleForallOK == " + tla_set(ids(SIMPLE, lambda v: v["forall"])))
    A("SimpleOne == " + tla_split(SIMPLE, ids(SIMPLE, lambda v: v["one"])))
    A("SimpleDoTermOK == " + tla_set(ids(SIMPLE, do_term_ok)))
    A("SimpleSolo == " + tla_set(ids(SIMPLE, lambda v: v["solo"])))
    A("DeclAll == " + tla_split(DECL, ids(DECL)))
    A("Decl08 == " + tla_set(ids(DECL, lambda v: v["std"] == 8)))
    A("DeclNeedsProc == " + tla_set(ids(DECL, lambda v: v["req"] == "proc")))
    A("DeclModOK == " + tla_set(ids(DECL, lambda v: v["mod"])))
    A("DeclProcOK == " + tla_set(ids(DECL, lambda v: v["proc"])))
    A("DeclBlockOK == " + tla_set(ids(DECL, lambda v: v["blk"])))
    A("DeclBdataOK == " + tla_set(ids(DECL, lambda v: v["bdata"])))
    A("DeclOne == " + tla_split(DECL, ids(DECL, lambda v: v["one"])))
    A("UseAll == " + tla_split(USE, ids(USE)))
    A("UseOne == " + tla_split(USE, ids(USE, lambda v: v["one"])))
    A("FormatOne == " + tla_split(FORMAT, ids(FORMAT, lambda v: v["one"])))
    A("FormatAll == " + tla_split(FORMAT, ids(FORMAT)))
    A("Format08 == " + tla_set(ids(FORMAT, lambda v: v["std"] == 8)))
    A("CompAll == " + tla_split(COMP, ids(COMP)))
    A("Comp08 == " + tla_set(ids(COMP, lambda v: v["std"] == 8)))
    A("CompHeadOnly == " + tla_set(ids(COMP, lambda v: v["head"])))
    A("TbindHeadOnly == " + tla_set(ids(TBIND, lambda v: v["head"])))
    A("TbindAll == " + tla_split(TBIND, ids(TBIND)))
    A("Tbind08 == " + tla_set(ids(TBIND, lambda v: v["std"] == 8)))
    A("EnumrAll == " + tla_split(ENUMR, ids(ENUMR)))
    A("ModprocAll == " + tla_set(ids(MODPROC)))
    A("Modproc08 == " + tla_set(ids(MODPROC, lambda v: v["std"] == 8)))
    for k in sorted(OPEN):
        A("Open_%s == %s" % (k, tla_set(ids(OPEN[k]))))
        A("Open08_%s == %s" % (k, tla_set(ids(OPEN[k], lambda v: v["std"] == 8))))
    for k in sorted(MIDS):
        A("Mid_%s == %s" % (k, tla_set(ids(MIDS[k]))))
    for k in sorted(UNIT):
        A("Unit_%s == %s" % (k, tla_set(ids(UNIT[k]))))
        A("Unit08_%s == %s" % (k, tla_set(ids(UNIT[k], lambda v: v["std"] == 8))))
    from . import perturb as _pt
    def _spl(tab):
        return [i + 1 for i, v in enumerate(tab) if v["std"] != 99 and len(_pt.layout_tokens(v["text"].replace("{L}", "10").replace("{N}", "nm"))) >= 2]
    def _strspl(tab):
        return [i + 1 for i, v in enumerate(tab) if v["std"] != 99 and _pt.long_string_index(_pt.layout_tokens(v["text"])) is not None]
    A("StrSplitS == " + tla_set(_strspl(SIMPLE)))
    A("StrSplitDecl == " + tla_set(_strspl(DECL)))
    A("SplitS == " + tla_set(_spl(SIMPLE)))
    A("SplitDecl == " + tla_set(_spl(DECL)))
    A("SplitUse == " + tla_set(_spl(USE)))
    A("SplitComp == " + tla_set(_spl(COMP)))
    for k in sorted(OPEN):
        A("SplitOpen_%s == %s" % (k, tla_set(_spl(OPEN[k]))))
    for k in ("sub", "fun"):
        A("SplitUnit_%s == %s" % (k, tla_set(_spl(UNIT[k]))))
    A("TypeProcOnlyModule == " + tla_set(ids(OPEN["type"], lambda v: not v["proc"])))
    A("=============================================================================")
    text = "\n".join(L) + "\n"
    try:
        if open(path).read() == text:
            return              # unchanged: leave the file alone (checks may run at the same time)
    except OSError:
        pass
    tmp = "%s.%d.tmp" % (path, os.getpid())
    with open(tmp, "w") as f:
        f.write(text)
    os.replace(tmp, path)


if __name__ == "__main__":
    import os, sys
    sys.path.insert(0, os.path.dirname(os.path.dirname(os.path.abspath(__file__))))
    from mbt import catalogue as _c
    _c.gen_tla(os.path.join(os.path.dirname(os.path.dirname(os.path.abspath(__file__))), "specs", "Catalogue_gen.tla"))
    sys.exit(0)
