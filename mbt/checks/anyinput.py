"""C06: for any input, parsing (and printing) ends in a tree or a FortranSyntaxError.

Fault enumeration: Perturb.tla mutates the statement that carries each catalogue variant
(every single token/character/line mutation, sampled by a fixed stride in the quick tier),
applies 1-3 random mutations to simulated programs, plus unstructured random text and files
with invalid UTF-8 bytes.  Every outcome must be `ok` or `fse` within the time bound (Clean law
of Session.tla, evaluated by TLC)."""
import json, os, random
from .. import common, tlc, programs, session, render, perturb
from ..framework import Check, pmap, MachineryError

REPL = ["(", ")", ",", "=", "::", "'", "&", ";", "end", "if", "then", "do", "%", "**", ".and.", "1.e", "!"]
CASE_TIMEOUT_S = 60


def mutate_lines(out, ed):
    """Apply the "mut" edits of a behaviour to the canonical rendering."""
    stmts = render.stmts_of(out)
    lines = [render.stmt_line(s) for s in stmts]
    for e in ed:
        i = e["pos"] - 1
        if i >= len(lines):
            continue
        line = lines[i]
        a, b = e["a"], e["b"]
        toks = perturb.layout_tokens(line.strip())
        ind = line[:len(line) - len(line.lstrip())]
        if b <= 3 + len(REPL) and toks:
            j = min(len(toks) - 1, (len(toks) * (a - 1)) // 8)
            if b == 1:
                del toks[j]
            elif b == 2:
                toks.insert(j, (toks[j][0], " "))
            elif b == 3:
                if j + 1 < len(toks):
                    toks[j], toks[j + 1] = (toks[j + 1][0], toks[j][1]), (toks[j][0], toks[j + 1][1])
            else:
                toks[j] = (REPL[b - 4], toks[j][1])
            lines[i] = ind + perturb.join_tokens(toks)
        elif b == 30 and line.strip():
            j = min(len(line) - 1, len(ind) + ((len(line) - len(ind)) * (a - 1)) // 8)
            lines[i] = line[:j] + line[j + 1:]
        elif b == 31:
            j = min(len(line), len(ind) + ((len(line) - len(ind)) * (a - 1)) // 8)
            lines[i] = line[:j] + ("'" if a % 2 else '"') + line[j:]
        elif b == 40:
            lines[i] = ""
        elif b == 41:
            lines[i] = line + "\n" + line
        elif b == 42 and i + 1 < len(lines):
            lines[i], lines[i + 1] = lines[i + 1], lines[i]
    return "\n".join(l for l in lines if l != "") + "\n"


CHARSET = "abcdefghijklmnopqrstuvwxyzEND0123456789 ()=+-*/,.':;!&%<>\"_$\n\n\n"
WORDS = ["program", "end", "if", "then", "do", "subroutine", "function", "integer", "real", "::", "(", ")", "=", "call", "x", "y", "1", "2.0",
         "'a'", "\n", "\n", "contains", "module", "use", "else", "select case", "case", "where", "forall", "type", "interface", "block", "&", "!c", ";",
         "10", "continue", "format", "print *,", "write(*,*)", ".and.", "**", "//", "%", "[", "]", "(/", "/)", ":", ","]


def random_text(rng, n):
    if rng.random() < 0.5:
        return "".join(rng.choice(CHARSET) for _ in range(n))
    return " ".join(rng.choice(WORDS) for _ in range(n // 3))


def work(case):
    """Parse and print; every escape (SystemExit included) is an outcome."""
    from .. import fp
    out = []
    for job in case["jobs"]:
        tmp = None
        try:
            P = fp.create(job["std"])
            if job.get("bytes") is not None:
                import tempfile
                fd, tmp = tempfile.mkstemp(suffix=".f90", dir=os.path.join(common.WORK, "tmp"))
                with os.fdopen(fd, "wb") as f:
                    f.write(bytes(job["bytes"]))
                try:
                    rd = fp.FortranFileReader(tmp, ignore_comments=job["ic"])
                    o, t = fp.parse(P, rd)
                except BaseException as e:  # noqa: BLE001
                    if isinstance(e, KeyboardInterrupt):
                        raise
                    o, t = fp.outcome_of_exception(e), None
            else:
                o, t = fp.parse(P, job["src"], ignore_comments=job["ic"])
            if t is not None:
                try:
                    str(t)
                    repr(t)
                except BaseException as e:  # noqa: BLE001
                    if isinstance(e, KeyboardInterrupt):
                        raise
                    o = fp.outcome_of_exception(e)
                    o["while"] = "printing"
            sc = fp.scope()
            out.append({"o": o, "scope": sc})
        finally:
            if tmp:
                try:
                    os.remove(tmp)
                except OSError:
                    pass
    return {"id": case["id"], "out": out}


def run(prop, tier=None, replay=None):
    chk = Check("C06", "fault_enumeration", tier)
    tier = chk.tier
    programs.ensure_generated()
    os.makedirs(os.path.join(common.WORK, "tmp"), exist_ok=True)
    rng = random.Random(chk.seed * 7919 + 13)
    inputs = []      # (family, source text or bytes, provenance)
    if replay:
        rp = json.load(open(replay))["replay"]
        inputs.append(("replay", rp["src"], rp.get("prov")))
    else:
        cfgs = ["Perturb_c06_exec_quick.cfg", "Perturb_c06_decl_quick.cfg", "Perturb_c06_type_quick.cfg"] if tier == "quick" else \
               ["Perturb_c06_exec_thorough.cfg", "Perturb_c06_spec_thorough.cfg"]
        for cfg in cfgs:
            r = tlc.run("MCPerturb.tla", cfg, timeout=20000)
            if not r.ok():
                raise MachineryError("TLC failed on %s: %s %s" % (cfg, r.invariant_violated, r.error))
            chk.add_tlc(r)
            chk.cov.setdefault("tlc_runs", []).append({"cfg": cfg, "distinct": r.distinct, "behaviours": len(r.beh), "wall_s": r.wall_s})
            for b in r.beh:
                if b["ed"]:
                    inputs.append(("mut1", mutate_lines(b["out"], b["ed"]), {"out": b["out"], "ed": b["ed"]}))
        r = tlc.run("MCPerturb.tla", "Perturb_c06_sim.cfg", workers=8, simulate=dict(num=60 if tier == "quick" else 2500, depth=220), seed=chk.seed + 11, timeout=20000)
        if not r.ok():
            raise MachineryError("TLC failed on Perturb_c06_sim.cfg: %s %s" % (r.invariant_violated, r.error))
        chk.add_tlc(r)
        for b in r.beh:
            if b["ed"]:
                inputs.append(("mut3", mutate_lines(b["out"], b["ed"]), {"out": b["out"], "ed": b["ed"]}))
        for i in range(300 if tier == "quick" else 20000):
            inputs.append(("random", random_text(rng, rng.randint(5, 200)), {"seed": chk.seed, "i": i}))
        # deep nesting (valid programs): the parser must still answer with a tree or a syntax error
        from . import effort
        for fam_, sizes_ in (("nested-parens", (10, 30, 40, 80)), ("nested-paren-sums", (30, 60)), ("nested-if", (50, 150)), ("nested-block-do", (150,)),
                             ("long-sum", (300,)), ("n-statements", (400,)), ("shared-label-do-action", (60,))):
            for n_ in sizes_:
                inputs.append(("deep", effort.fam(fam_, n_), {"family": fam_, "n": n_}))
        # calls of intrinsic procedures (generic and specific names) with every argument count 0..4, in every
        # kind of scoping unit: the argument check is one of the few semantic checks of the parser
        names = ["sin", "alog", "amax1", "iabs", "float", "max", "min0", "mod", "dble", "cmplx", "size", "present", "null", "selected_real_kind",
                 "dprod", "isign", "reshape", "sum", "len_trim", "ichar", "idnint", "transfer", "bessel_jn", "atan2"]
        wraps = [("sub", "subroutine s\n%s\nend subroutine s\n"), ("prog", "program p\n%s\nend program p\n"), ("main0", "%s\nend\n"),
                 ("modsub", "module m\ncontains\nsubroutine s\n%s\nend subroutine s\nend module m\n"),
                 ("fun", "function f(a)\n%s\nend function f\n"), ("decl", "subroutine s\nreal :: v = %s\nend subroutine s\n")]
        forms = ["x = %s", "if (%s > 0) x = 1", "call t(%s)", "x = a(%s) + %s", "print *, %s"]
        k = 0
        for nm in names:
            for na in range(5):
                call = "%s(%s)" % (nm, ", ".join("abcd"[:na]))
                k += 1
                picks = range(len(wraps)) if tier != "quick" else [k % len(wraps), (k + 2) % len(wraps)]
                for wi in picks:
                    wn, w = wraps[wi]
                    fi = (k + wi) % len(forms)
                    body = call if wn == "decl" else forms[fi].replace("%s", call)
                    inputs.append(("intrinsic-arity", w % body, {"name": nm, "args": na, "wrap": wn}))
        # lines the READER interprets itself (INCLUDE lines, preprocessor lines, conditional-compilation sentinels, labels, construct
        # names, continuation marks), well formed and cut short, with short and long operands
        longn = "a_rather_long_file_name_of_more_than_forty_characters.inc"
        rl = []
        for nm in ("f.inc", longn, "dir/" + longn):
            for q1, q2 in (("'", "'"), ('"', '"'), ("'", ""), ('"', ""), ("", "'"), ("'", '"'), ("'", "' x"), ('"', '" ! c'), ("'", "''")):
                rl.append("include %s%s%s" % (q1, nm, q2))
        for d in ("#include \"%s" % longn, "#include <%s" % longn, "#define " + "A" * 60 + "(", "#if " + "(" * 40, "#ifdef", "# " + "9" * 30, "#line 3 \"" + "x" * 50,
                  "!$ " + "x" * 70 + " = 1 &", "!$omp" + " p" * 40, "c$ x = 1", "*$ x = 1", "1234567 x = 1", "12345 nm_" + "z" * 70 + ": do i = 1, 2", "nm : : do",
                  "x = 'a" + "b" * 80 + " &", "x = 1 &", "&", "& &", "x = 1; ; ; y = 2", ";", "x = 1 ;",
                  # Hollerith items (an extension that is on by default): counts with blanks, too long, too short, zero
                  "100 format(1 2Habc, i3)", "100 format(1 2Habcdefghijkl, i3)", "100 format(9Hab)", "100 format(0H, i3)", "100 format(2 Hab, 3Hcde)",
                  "call s(3Habc, 2 Hab)", "data x /4Habcd/", "x = F2PY_EXPR_TUPLE_7 + _F2PY_STRING_CONSTANT_1_", "real :: x :: y", "integer :: :: a",
                  # what is left of a labelled / named statement when its text is deleted: a label alone, a label and a comment
                  "10", "20 ! note", "   30", "10 &", "10;", "10 ; x = 1"):
            rl.append(d)
        for k, line in enumerate(rl):
            for wn, w in (wraps[0], wraps[2]) if tier == "quick" else wraps[:4]:
                inputs.append(("reader-lines", w % line, {"line": line, "wrap": wn}))
        # an END statement that carries a name behind an opening statement that has none (BLOCK DATA is the unit that may be unnamed)
        for src in ("block data\nend block data a\n", "block data ! c\nend block data a\n", "block data\n common /b/ x\nend block data b\n",
                    "subroutine s\nend subroutine s\nblock data\nend block data s\n", "block data\nend block data\n"):
            inputs.append(("unit-ends", src, {"line": src.split("\n")[0], "wrap": "none"}))
        # invalid UTF-8 at different position classes of a file
        base = "program p\n  character(len=3) :: s\n  s = 'abc' ! comment\n  print *, s\nend program p\n".encode()
        positions = [0, 8, 10, 20, 38, 45, 50, 60, len(base) - 1, len(base)]
        for pos in positions:
            for bad in (b"\xff", b"\xc3\x28", b"\xe2\x82", b"\x80"):
                inputs.append(("badbyte", list(base[:pos] + bad + base[pos:]), {"pos": pos, "bad": list(bad)}))
    chk.phase("generate")
    cases = []
    for i, (fam, src, prov) in enumerate(inputs):
        jobs = []
        combos = [("f2003", True), ("f2008", False)] if (tier == "quick" and fam != "badbyte") else [(s, c) for s in ("f2003", "f2008") for c in (True, False)]
        if tier == "quick" and fam in ("mut1",):
            combos = [combos[i % 2]]
        for std, ic in combos:
            if fam == "badbyte":
                jobs.append({"std": std, "ic": ic, "bytes": src})
            else:
                jobs.append({"std": std, "ic": ic, "src": src})
        cases.append({"id": i, "fam": fam, "src": src, "prov": prov, "jobs": jobs})
    res = pmap(work, [{"id": c["id"], "jobs": c["jobs"]} for c in cases], timeout=CASE_TIMEOUT_S, batch=16)
    # an input whose child gave no result is run once more in a child of its own (a child that is starved on a loaded machine must
    # not become a verdict: the bound is on the parse, which then has the whole limit to itself); only a second failure is reported
    again = [i for i, r in enumerate(res) if "__timeout__" in r or "__died__" in r]
    if again:
        res2 = pmap(work, [{"id": cases[i]["id"], "jobs": cases[i]["jobs"]} for i in again], timeout=CASE_TIMEOUT_S, batch=1)
        for i, r in zip(again, res2):
            res[i] = r
        chk.cov["inputs_run_a_second_time_after_no_result"] = len(again)
    chk.phase("observe")
    D = session.Digests()
    events = []
    bytid = {}
    for c, r in zip(cases, res):
        tid = c["id"] + 1
        bytid[tid] = (c, r)
        ev = [{"e": "begin", "t": tid}]
        sid = D(("b", tuple(c["src"])) if c["fam"] == "badbyte" else c["src"])
        if "__timeout__" in r or "__died__" in r:
            how = "timeout" if "__timeout__" in r else "died"
            ev.append({"e": "parse", "src": sid, "cfg": 0, "res": how, "tree": 0, "st": 0, "sci": 0, "line": 0, "q": 0})
            ev.append({"e": "claim", "law": "clean", "src": sid, "cfg": 0})
        else:
            for job, x in zip(c["jobs"], r["out"]):
                cfg = session.cfg_id(job["std"], job["ic"])
                o = x["o"]
                ev.append({"e": "parse", "src": sid, "cfg": cfg, "res": o["res"], "tree": 0, "st": 0, "sci": 0, "line": 0, "q": 0})
                ev.append({"e": "claim", "law": "clean", "src": sid, "cfg": cfg})
                chk.count()
        events.extend(ev)
        chk.distinct(sid)
    rej = session.validate(chk, events)
    chk.phase("validate")
    seen = set()
    for tid, clause in rej:
        if tid in seen:
            continue
        seen.add(tid)
        c, r = bytid[tid]
        if "__timeout__" in r or "__died__" in r:
            sig = {"clause": "no-result", "how": "timeout" if "__timeout__" in r else "died"}
            what = "C06: no result within %d s" % CASE_TIMEOUT_S
        else:
            bad = [x["o"] for x in r["out"] if x["o"]["res"] not in ("ok", "fse")]
            o = bad[0]
            sig = {"clause": "escape", "type": o.get("type"), "site": o.get("site"), "via": o.get("via")}
            if o.get("type") == "RecursionError":
                # known finding KF-C06-3 is about inputs nested deeper than about 36 bracket levels, nothing else
                depth = best = 0
                for ch in (c["src"] if isinstance(c["src"], str) else ""):
                    if ch in "([":
                        depth += 1
                        best = max(best, depth)
                    elif ch in ")]":
                        depth -= 1
                # ... or a chain of 150 or more binary operators in one statement (a left-nested tree of that depth)
                chain = max([len([1 for ch in ln if ch in "+-*/"]) for ln in (c["src"] if isinstance(c["src"], str) else "").split("\n")] or [0])
                sig["expression_nested_30_brackets_or_150_operators_deep"] = best >= 30 or chain >= 150
            if o.get("type") == "SystemExit" and str(o.get("site", "")).endswith("FortranReaderBase.error"):
                # known finding KF-C06-2 is about a construct name that no statement follows ('name:' alone, before a comment or a
                # continuation mark) - any other way into reader.error() is a different escape
                import re as _re
                text = c["src"] if isinstance(c["src"], str) else ""
                sig["a_construct_name_is_followed_by_no_statement"] = any(
                    _re.match(r"\s*(\d+\s*)?(&\s*)?[A-Za-z]\w*\s*:\s*(&\s*)?(!.*)?$", ln) for ln in _re.split(r"[\n;]", text))
            what = "C06: %s escaped from %s (via %s)%s: %s" % (o.get("type"), o.get("site"), o.get("via"), " while printing" if o.get("while") else "", o.get("msg"))
        src = c["src"] if c["fam"] != "badbyte" else repr(bytes(c["src"]))
        chk.violation(sig, what + "\n" + str(src)[:500], {"src": c["src"], "prov": c["prov"], "fam": c["fam"]})
    fam = {}
    for c in cases:
        fam[c["fam"]] = fam.get(c["fam"], 0) + 1
    chk.cov["inputs_by_family"] = fam
    for c in cases[:: max(1, len(cases) // 3)][:3]:
        chk.sample({"family": c["fam"], "input": c["src"] if c["fam"] != "badbyte" else "bytes with invalid UTF-8 at %s" % c["prov"]})
    chk.cov["exhaustive"] = False
    chk.cov["rule"] = ("inputs = single mutations (Perturb.tla AddMut: 8 positions x 25 operations) of the statement carrying each catalogue variant (quick: fixed 1/k stride sample), "
                       "1-3 step mutations of simulated programs, random text, files with invalid UTF-8; one evaluation = one (input, standard, comment mode) parse+print; "
                       "distinct_nontrivial = distinct inputs")
    chk.assumptions = ["time bound %d s per input" % CASE_TIMEOUT_S, "known escapes are keyed by (exception type, innermost fparser frame, calling fparser frame) and, for those that leave through reader.error(), by the shape of the input that the finding names"]
    return chk.finish()
