"""C20: parsing effort stays polynomial in nesting depth and program length.

Effort = number of rule-constructor (Base.__new__) calls, counted by a harness-side wrapper
(deterministic).  The measurements of every family are validated by TLC against the law of
Growth.tla (Bounded, Doubling); the Python twin must agree."""
import json, os
from .. import common, tlc
from ..framework import Check, pmap, MachineryError

CAP = 4000000        # stop measuring a family once a single parse needs more calls than this


def fam(name, n):
    """Source text of family `name` at size n."""
    L = []
    A = L.append
    if name == "nested-parens":
        A("program p"); A("x = " + "(" * n + "a" + ")" * n); A("end program p")
    elif name == "nested-paren-sums":
        A("program p"); A("x = " + "(a+" * n + "a" + ")" * n); A("end program p")
    elif name == "nested-if":
        A("program p")
        for i in range(n): A("  " * i + "if (x > %d) then" % i)
        A("  " * n + "x = 1")
        for i in reversed(range(n)): A("  " * i + "end if")
        A("end program p")
    elif name == "nested-block-do":
        A("program p")
        for i in range(n): A("do i%d = 1, 2" % i)
        A("x = 1")
        for i in range(n): A("end do")
        A("end program p")
    elif name == "nested-labelled-block-do":
        A("program p")
        for i in range(n): A("do %d i%d = 1, 2" % (100 + i, i))
        A("x = 1")
        for i in reversed(range(n)): A("%d %s" % (100 + i, "continue" if i % 2 else "end do"))
        A("end program p")
    elif name == "shared-label-do-continue":
        A("program p")
        for i in range(n): A("do 10 i%d = 1, 2" % i)
        A("x = 1"); A("10 continue"); A("end program p")
    elif name == "shared-label-do-action":
        A("program p")
        for i in range(n): A("do 10 i%d = 1, 2" % i)
        A("10 x = 1"); A("end program p")
    elif name == "nested-select":
        A("program p")
        for i in range(n): A("select case (i%d)" % i); A("case (1)")
        A("x = 1")
        for i in range(n): A("end select")
        A("end program p")
    elif name == "n-statements":
        A("program p")
        for i in range(n): A("x%d = %d" % (i, i))
        A("end program p")
    elif name == "n-loops":
        A("program p")
        for i in range(n): A("do i = 1, 2"); A("x = 1"); A("end do")
        A("end program p")
    elif name == "n-labelled-loops":
        A("program p")
        for i in range(n): A("do %d i = 1, 2" % (100 + i)); A("x = 1"); A("%d continue" % (100 + i))
        A("end program p")
    elif name == "n-action-terminated-loops":
        A("program p")
        for i in range(n): A("do %d i = 1, 2" % (100 + i)); A("%d x = 1" % (100 + i))
        A("end program p")
    elif name == "n-action-terminated-loops-leading-zero-labels":
        A("program p")
        for i in range(n): A("do 0%d i = 1, 2" % (100 + i)); A("0%d x = 1" % (100 + i))
        A("end program p")
    elif name == "long-sum":
        A("program p"); A("x = " + " + ".join(["a"] * (n + 1))); A("end program p")
    elif name == "long-argument-list":
        A("program p"); A("call s(" + ", ".join(["a"] * (n + 1)) + ")"); A("end program p")
    elif name == "defined-operator-chain":
        A("program p"); A("x = a" + " .x. .u. a" * n); A("end program p")
    elif name == "n-if-statements":
        A("program p")
        for i in range(n): A("if (x > %d) y = %d" % (i, i))
        A("end program p")
    elif name == "n-units":
        for i in range(n): A("subroutine s%d" % i); A("x = 1"); A("end subroutine s%d" % i)
    elif name == "nested-where":
        A("program p")
        for i in range(n): A("where (a > %d)" % i)
        A("a = 1")
        for i in range(n): A("end where")
        A("end program p")
    elif name == "long-concat-of-strings":
        A("program p"); A("s = " + " // ".join(["'a%d b'" % i for i in range(n + 1)])); A("end program p")
    elif name.startswith("slot/"):
        return slot_source(name, n)
    else:
        raise ValueError(name)
    return "\n".join(L) + "\n"


# ---------------------------------------------------------------- growth inside every kind of statement
# "slot/<kind>/<variant>/<shape>": the statement of catalogue variant <variant> with its last integer-literal operand
# replaced by an expression of nesting depth / length n (the nesting the property speaks of, inside every statement
# kind of the catalogue rather than in an assignment only).
SLOT_SHAPES = {"paren": lambda x, n: "(" * n + x + ")" * n,
               "call": lambda x, n: "f(" * n + x + ")" * n,
               "sum": lambda x, n: ("(" + x + " + ") * n + x + ")" * n,
               "chain": lambda x, n: x + (" + " + x) * n,
               "list": lambda x, n: "[" + ", ".join([x] * (n + 1)) + "]",
               "neg": lambda x, n: "-(" * n + x + ")" * n,
               "pow": lambda x, n: (x + " ** ") * n + x,
               "callneg": lambda x, n: "f(-" * n + x + ")" * n,
               "mixed": lambda x, n: ("(" + x + " * f(") * n + x + "))" * n,
               "callpct": lambda x, n: "f(" * n + "a%b(" + x + ")" + ")" * n,
               "callstr": lambda x, n: "f(" * n + "'50%', " + x + ")" * n,
               "callsigned": lambda x, n: "f(" * n + x + ", -1.0)" * n,
               "callkw": lambda x, n: "f(k=" * n + x + ")" * n,
               "section": lambda x, n: "a(" * n + x + ":)" * n,
               # data-refs with '%' on every level: the last part without / with a subscript list, the reference as its first part
               "pctnest": lambda x, n: "s(" * n + x + ")%c" * n,
               "pctsub": lambda x, n: "s(" * n + x + ")%c(1)" * n,
               "pcthead": lambda x, n: "a%b(" * n + x + ")" * n}
SLOT_SIZES = [1, 2, 4, 8, 16]
SLOT_CAP = 600000     # a slot family needs a few hundred calls at n = 1; 4 * c(1) * 16^2 stays far below this


def slot_of(text):
    from .. import perturb
    toks = perturb.layout_tokens(text)
    last = None
    for j, (t, sp) in enumerate(toks):
        if t.isdigit() and j > 0 and toks[j - 1][0] not in ("*", "=>", "_") and not (j + 1 < len(toks) and toks[j + 1][0] == "_"):
            last = j
    return toks, last


def slot_source(name, n):
    from .. import catalogue, perturb
    _, kind, v, shape = name.split("/")
    text = catalogue.table(kind)[int(v) - 1]["text"]
    toks, j = slot_of(text)
    new = list(toks)
    new[j] = (SLOT_SHAPES[shape](toks[j][0], n), toks[j][1])
    return "subroutine nm(arg1, arg2)\n%s\nend subroutine nm\n" % perturb.join_tokens(new)


def slot_families(tier, seed):
    from .. import catalogue
    stride = 3 if tier == "quick" else 1
    out = []
    for kind in ("s", "decl"):
        tab = catalogue.table(kind)
        for v in range(1, len(tab) + 1):
            if tab[v - 1]["std"] == 99 or tab[v - 1]["req"] == "do" or (v + seed) % stride:
                continue
            if slot_of(tab[v - 1]["text"])[1] is None:
                continue
            for k, shape in enumerate(sorted(SLOT_SHAPES)):
                out.append("slot/%s/%d/%s" % (kind, v, shape))
    return out


FAMILIES = ["nested-parens", "nested-paren-sums", "nested-if", "nested-block-do", "nested-labelled-block-do", "shared-label-do-continue",
            "shared-label-do-action", "nested-select", "n-statements", "n-loops", "n-labelled-loops", "n-action-terminated-loops",
            "n-action-terminated-loops-leading-zero-labels", "long-sum", "long-argument-list", "defined-operator-chain", "n-if-statements",
            "n-units", "nested-where", "long-concat-of-strings"]
# coefficient of the absolute bound c(n) <= COEF * n^2: four times today's count at n = 1 (measured on the pinned tree with the fixes)
COEF_FILE = os.path.join(common.VERIF, "catalogue", "effort_coefficients.json")


def measure(case):
    from .. import fp
    from fparser.two import utils as U
    cnt = [0]
    orig = U.Base.__new__

    class Stop(BaseException):
        pass

    def counting(cls, *a, **k):
        cnt[0] += 1
        if cnt[0] > cap[0]:
            raise Stop()
        return orig(cls, *a, **k)
    out = []
    cap = [SLOT_CAP if case["fam"].startswith("slot/") else CAP]
    for n in case["sizes"]:
        P = fp.create("f2008")
        cnt[0] = 0
        U.Base.__new__ = counting
        try:
            try:
                o, t = fp.parse(P, fam(case["fam"], n))
            except Stop:
                o = {"res": "cap"}
            if cnt[0] > cap[0]:
                o = {"res": "cap"}      # fp.parse reports the Stop as an escape
        finally:
            U.Base.__new__ = orig
        out.append({"n": n, "c": cnt[0], "res": o["res"]})
        if o["res"] == "cap" or (o["res"] != "ok" and case["fam"].startswith("slot/")):
            break
    return {"fam": case["fam"], "out": out}


def twin(events, deg=2, minn=4):
    rej = []
    prev = {"f": "", "n": 0, "c": 0}
    for i, e in enumerate(events, 1):
        if not (e["c"] <= e["coef"] * e["n"] ** deg):
            rej.append((i, e["f"], e["n"], "Bounded"))
        elif prev["f"] == e["f"] and e["n"] == 2 * prev["n"] and prev["n"] >= minn and not (e["c"] * 4 <= (2 ** deg) * 5 * prev["c"]):
            rej.append((i, e["f"], e["n"], "Doubling"))
        prev = e
    return rej


def run(prop, tier=None, replay=None):
    chk = Check("C20", "other", tier)
    tier = chk.tier
    sizes = [1, 2, 4, 8, 16, 32] + ([64] if tier != "quick" else [])
    fams = FAMILIES
    if replay:
        fams = [json.load(open(replay))["replay"]["fam"]]
    coefs = json.load(open(COEF_FILE))
    # expressions nested deeper than about 36 bracket levels exhaust Python's recursion limit in the expression rule chain
    # (RecursionError: known finding KF-C06-3 of property C06, not a question of growth): these two families stop at 32
    deep = {"nested-parens": 32, "nested-paren-sums": 32}
    nhand = len(fams)
    if not replay:
        fams = fams + slot_families(tier, chk.seed)
    jobs = [{"fam": f, "sizes": SLOT_SIZES if f.startswith("slot/") else [n for n in sizes if n <= deep.get(f, 10 ** 9)]} for f in fams]
    res = pmap(measure, jobs, chunksize=1 if len(jobs) < 100 else 8, timeout=1200)
    events = []
    skipped = 0
    for f, r in zip(fams, res):
        if "__timeout__" in r or "__died__" in r:
            chk.violation({"clause": "no-result", "family": f.split("/")[-1] if f.startswith("slot/") else f},
                          "C20: measuring family %s did not finish" % f, {"fam": f})
            continue
        slot = f.startswith("slot/")
        if slot and r["out"][0]["res"] != "ok":
            skipped += 1          # the grown operand is not valid in that position: outside the class
            continue
        c1 = r["out"][0]["c"]
        for x in r["out"]:
            if slot and x["res"] not in ("ok", "cap"):
                break             # accepted when small, refused when larger (e.g. a kind selector): stop this family here
            chk.count()
            chk.distinct((f, x["n"]))
            if x["res"] not in ("ok", "cap"):
                raise MachineryError("family %s size %d is not accepted by the parser (%s)" % (f, x["n"], x["res"]))
            # hand-written families: recorded coefficient; slot families: four times the count at n = 1 of this very run
            events.append({"f": f, "n": x["n"], "c": min(x["c"], CAP), "coef": (4 * c1) if slot else coefs.get(f, 0)})
    chk.cov["slot_families"] = {"measured": len(fams) - nhand - skipped, "not_valid_in_that_position": skipped}
    path = os.path.join(chk.work, "growth.ndjson")
    with open(path, "w") as fh:
        for e in events:
            fh.write(json.dumps(e) + "\n")
    r = tlc.run("Growth.tla", "Growth.cfg", workers=1, env={"TRACE_FILE": path}, timeout=600)
    if r.error:
        raise MachineryError("TLC failed on Growth.tla: " + r.error)
    chk.add_tlc(r)
    done = [t for t in r.tuples if t[0] == "DONE"]
    if not done or tlc.tuple_fields(done[-1][1])[2] != len(events):
        raise MachineryError("TLC did not consume the measurement trace")
    trej = sorted(tuple(tlc.tuple_fields(line)[1:]) for tag, line in r.tuples if tag == "REJECT")
    prej = sorted(twin(events))
    if trej != prej:
        raise MachineryError("TLC and the Python twin disagree on Growth: %s vs %s" % (trej[:3], prej[:3]))
    chk.cov["traces_validated_against_impl"] = len(fams)
    table = {}
    for e in events:
        table.setdefault(e["f"], []).append(e["c"])
    chk.cov["counts"] = {f: c for f, c in table.items() if not f.startswith("slot/")}
    for i, f, n, clause in trej:
        src = (" - statement: " + slot_source(f, 2).split("\n")[1]) if f.startswith("slot/") else ""
        chk.violation({"clause": clause, "family": f.split("/")[-1] if f.startswith("slot/") else f},
                      "C20: family %s violates %s at n = %d: counts %s (bound coefficient %s)%s" % (f, clause, n, table[f], coefs.get(f), src),
                      {"fam": f, "n": n, "counts": table[f]})
    chk.sample({"family": "nested-if", "n": 2, "source": fam("nested-if", 2)})
    chk.sample({"family": "shared-label-do-action", "n": 3, "source": fam("shared-label-do-action", 3)})
    return chk.finish(explanation="effort = number of Base.__new__ calls per parse (deterministic count by a harness-side wrapper), measured for %d input families at n = %s; "
                                  "TLC validates the measurement trace against Growth.tla: c(n) <= coef_f * n^2 with coef_f = 4 x the count at n = 1 recorded in catalogue/effort_coefficients.json, "
                                  "and c(2n) <= 5 c(n) for n >= 4 (doubling multiplies by at most 2^2 with 25%% slack). A family whose single parse exceeds %d calls is cut off and fails the bound. "
                                  "Slot families: the statement of every (quick: every second) catalogue variant of kinds s/decl with its last integer operand replaced by nested brackets, nested "
                                  "references f(f(..)), nested sums, a chain or a list of size n = 1..16; their coefficient is 4 x the count at n = 1 of the same run."
                                  % (len(fams), sizes, CAP))
