"""C03: expression trees encode precedence and associativity.

Expr.tla: TLC checks Impl (transcribed rule chain) = Ref (standard) over every token string up
to a bound and over simulated grammar derivations; every accepted string is concretised
(operator spellings x operand kinds x spacing) and parsed by the real Fortran2003.Expr and by
the full parser (as an assignment right-hand side); the real grouping must equal Ref's."""
import json, itertools
from .. import common, tlc, programs, obs
from ..framework import Check, pmap, MachineryError

SPELL = {
    "dop": [".myop.", ".x.", ".inn."],
    "eqv": [".eqv.", ".neqv."],
    "or": [".or."],
    "and": [".and."],
    "not": [".not."],
    "rel": ["==", "/=", "<", "<=", ">", ">=", ".eq.", ".ne.", ".lt.", ".le.", ".gt.", ".ge."],
    "cat": ["//"],
    "add": ["+", "-"],
    "mul": ["*", "/"],
    "pow": ["**"],
}
OPERANDS = ["a", "1.0e-3", "b(i+1)", "2.5d+0", "f(x, y-1)", "p%q", ".true.", "'a+b'", "\"c//d\"", "3", "1.e5", "c(1:2)", "z_8", "(/1, 2/)",
            "g(-1)", "w(i)%v(j)", "4.e-2_k", ".false.",
            # names that end like the mantissa of an exponent literal (digit + e/d): before a sign they must stay names
            "t3d", "n1e", "q2e4", "v_1d",
            # character literals that end in a backslash (not an escape in Fortran) or hold brackets and operators
            "'a\\'", "'\\'", "'(x)*'"]
NUMERIC = {"1.0e-3", "2.5d+0", "3", "1.e5", "4.e-2_k"}


# a small pool: the same exponent / character literal then occurs several times in one expression (inside one bracketed
# group and again elsewhere), which is what the placeholder mechanism has to keep apart
SMALL_POOL = ["1.0e-3", "1.0e-3", "7.e0", "a", "1.0e-3", "'a b'", "'a b'", "2.5d+0"]


def concretise(toks, salt, tight, pool=None):
    """Token classes -> Fortran text.  tight: no blanks except where the lexical structure needs one."""
    out = []
    prev = None
    k = salt
    ops = pool or OPERANDS
    for i, t in enumerate(toks):
        if t == "x":
            s = ops[(k + i * 5) % len(ops)]
        elif t in "()":
            s = t
        else:
            sp = SPELL[t]
            s = sp[(k + i * 3) % len(sp)]
        k += 1
        sep = " "
        if tight and prev is not None:
            # a dotted operator may be followed directly by a numeric literal (.inv.1.0e-3); a blank is kept where two
            # dots would meet (1. .eq.) and after an integer literal (3 .eq. x), where the lexical structure is at stake
            dotted_num = (prev.endswith(".") and s.startswith(".")) \
                or (s.startswith(".") and prev[-1].isdigit() and prev.isdigit())
            letters = (prev[-1].isalnum() or prev[-1] == "_") and (s[0].isalnum() or s[0] == "_")
            opop = prev in ("*", "/", "**", "//") and s in ("*", "/", "**", "//", "/=")
            numdot = prev.isdigit() and s.startswith(".")
            sep = " " if (dotted_num or letters or opop or numdot) else ""
        out.append((sep if prev is not None else "") + s)
        prev = s
    return "".join(out)


def operands_of(toks, salt, pool=None):
    """The operand texts concretise() puts in, in order."""
    ops = pool or OPERANDS
    return [squash(ops[(salt + i + i * 5) % len(ops)]) for i, t in enumerate(toks) if t == "x"]


OPCLASS = {}
for _c, _sp in SPELL.items():
    for _s in _sp:
        OPCLASS[_s.upper()] = _c


def opclass(op):
    op = op.upper().replace(" ", "")
    if op in OPCLASS:
        return OPCLASS[op]
    if op.startswith(".") and op.endswith("."):
        return "dop"
    return "?" + op


def shape(node):
    """Real tree -> the nested-list form of Expr.tla."""
    from ..fp import Base
    from fparser.two import utils as U
    from fparser.two import Fortran2003 as F
    cn = type(node).__name__
    if isinstance(node, U.BinaryOpBase):
        l, op, r = node.items
        return [opclass(op), shape(l), shape(r)]
    if isinstance(node, U.UnaryOpBase):
        op, r = node.items
        return [opclass(op), shape(r)]
    if cn == "Parenthesis":
        return ["par", shape(node.items[1])]
    return ["x"]


def squash(text):
    """Operand text modulo blanks and letter case outside character literals."""
    out = []
    q = None
    for ch in text:
        if q:
            out.append(ch)
            if ch == q:
                q = None
        elif ch in "'\"":
            q = ch
            out.append(ch)
        elif ch != " ":
            out.append(ch.lower())
    return "".join(out)


def operands(node):
    """Operand texts of the real tree, left to right."""
    from fparser.two import utils as U
    if isinstance(node, U.BinaryOpBase):
        return operands(node.items[0]) + operands(node.items[2])
    if isinstance(node, U.UnaryOpBase):
        return operands(node.items[1])
    if type(node).__name__ == "Parenthesis":
        return operands(node.items[1])
    return [squash(str(node))]


def work(case):
    from .. import fp
    from fparser.two import Fortran2003 as F
    from fparser.two.utils import NoMatchError
    res = []
    fp.create(case.get("std", "f2008"))
    for text, mode in case["texts"]:
        r = {"text": text, "mode": mode}
        try:
            if mode == "expr":
                n = F.Expr(text)
                r["shape"] = shape(n)
                r["operands"] = operands(n)
                r["str"] = str(n)
            else:
                src = "subroutine s\n  r = %s\nend subroutine s\n" % text if mode == "assign" else \
                      "subroutine s\n  if (%s) then\n  end if\nend subroutine s\n" % text
                o, t = fp.parse(fp.create("f2008"), src)
                if o["res"] != "ok":
                    r["err"] = o["res"]
                else:
                    from ..fp import walk
                    if mode == "assign":
                        a = [n for n in walk(t) if type(n).__name__ == "Assignment_Stmt"][0]
                        r["shape"] = shape(a.items[2])
                        r["operands"] = operands(a.items[2])
                    else:
                        a = [n for n in walk(t) if type(n).__name__ == "If_Then_Stmt"][0]
                        r["shape"] = shape(a.items[0])
                        r["operands"] = operands(a.items[0])
        except NoMatchError:
            r["err"] = "nomatch"
        except Exception as e:  # noqa: BLE001
            r["err"] = "%s" % type(e).__name__
        res.append(r)
    return {"id": case["id"], "res": res}


def run(prop, tier=None, replay=None):
    chk = Check("C03", "model_checking", tier)
    tier = chk.tier
    if replay:
        rp = json.load(open(replay))["replay"]
        behs = [rp["beh"]]
    else:
        behs = []
        for cfg, kw in ((("Expr_quick.cfg", {}),) if tier == "quick" else (("Expr_thorough.cfg", {}), ("Expr_core7.cfg", {}))):
            r = tlc.run("MCExpr.tla", cfg, timeout=20000, **kw)
            if r.invariant_violated:
                chk.violation({"clause": "spec-" + r.invariant_violated}, "TLC: invariant %s of Expr.tla violated (the transcribed rule chain leaves the standard)" % r.invariant_violated, {"cfg": cfg})
            elif not r.ok():
                raise MachineryError("TLC failed on %s: %s" % (cfg, r.error))
            chk.add_tlc(r)
            chk.cov.setdefault("tlc_runs", []).append({"cfg": cfg, "generated": r.generated, "distinct": r.distinct, "accepted_strings": len(r.beh), "wall_s": r.wall_s})
            behs.extend(r.beh)
        n = 60 if tier == "quick" else 4000
        r = tlc.run("MCExpr.tla", "Expr_gen.cfg", workers=8, simulate=dict(num=n, depth=500), seed=chk.seed + 3, timeout=20000)
        if r.invariant_violated:
            chk.violation({"clause": "spec-" + r.invariant_violated}, "TLC: invariant %s of Expr.tla violated on a simulated derivation" % r.invariant_violated, {"cfg": "Expr_gen.cfg"})
        elif not r.ok():
            raise MachineryError("TLC failed on Expr_gen.cfg: %s" % r.error)
        chk.add_tlc(r)
        chk.cov["tlc_runs"].append({"cfg": "Expr_gen.cfg", "generated": r.generated, "derivations": len(r.beh), "wall_s": r.wall_s})
        seen = set()
        for b in r.beh:
            k = tuple(b["toks"])
            if k not in seen:
                seen.add(k)
                behs.append(b)
    chk.phase("generate")
    cases = []
    nvar = 6 if tier == "quick" else 24
    for i, b in enumerate(behs):
        if not b["ok"]:
            continue
        texts = []
        exp_ops = []
        for v in range(nvar):
            pool = SMALL_POOL if v % 3 == 2 else None
            txt = concretise(b["toks"], salt=v * 7 + i, tight=(v % 2 == 1), pool=pool)
            eo = operands_of(b["toks"], v * 7 + i, pool)
            texts.append((txt, "expr"))
            exp_ops.append(eo)
            if v % 3 == 0 or pool:
                texts.append((txt, "assign"))
                exp_ops.append(eo)
            if v % 6 == 1 and len(b["toks"]) > 1:
                texts.append((txt, "if"))
                exp_ops.append(eo)
        cases.append({"id": i, "toks": b["toks"], "t": b["t"], "texts": texts, "exp_ops": exp_ops})
    results = pmap(work, [{"id": c["id"], "texts": c["texts"]} for c in cases], timeout=300)
    chk.phase("replay")
    for c, r in zip(cases, results):
        if "__timeout__" in r or "__died__" in r:
            chk.violation({"clause": "no-result"}, "C03: no result for %s" % c["texts"][0][0], {"beh": {"toks": c["toks"], "ok": True, "t": c["t"]}})
            continue
        for xi, x in enumerate(r["res"]):
            chk.count()
            chk.cov["traces_validated_against_impl"] += 1
            if x.get("shape") == c["t"] and "exp_ops" in c and x.get("operands") != c["exp_ops"][xi]:
                chk.violation({"clause": "operands-differ", "mode": x["mode"]},
                              "C03: the operands of %s come out as %s (%s)" % (x["text"], x.get("operands"), x["mode"]),
                              {"beh": {"toks": c["toks"], "ok": True, "t": c["t"]}, "text": x["text"], "mode": x["mode"]})
            if x.get("shape") != c["t"]:
                sig = {"clause": "rejected" if "err" in x else "grouping-differs", "mode": x["mode"],
                       "ops": "-".join(sorted(set(t for t in c["toks"] if t not in ("x", "(", ")"))))[:60]}
                chk.violation(sig, "C03: %s parsed as %s, the standard groups it as %s (token classes %s; %s)" % (
                    x["text"], x.get("shape", x.get("err")), c["t"], " ".join(c["toks"]), x["mode"]),
                    {"beh": {"toks": c["toks"], "ok": True, "t": c["t"]}, "text": x["text"], "mode": x["mode"]})
        chk.distinct(tuple(c["toks"]))
    for c in cases[:: max(1, len(cases) // 3)][:3]:
        chk.sample({"token_classes": c["toks"], "standard_tree": c["t"], "concretised": [t for t, _ in c["texts"][:3]]})
    chk.cov["exhaustive"] = True
    chk.cov["rule"] = ("states = token strings enumerated by TLC (every string over 13 token classes up to the bound) on which Impl = Ref is checked; "
                       "evaluations = concretised expressions parsed by the real Fortran2003.Expr / as assignment right-hand side / as IF condition; "
                       "distinct_nontrivial = distinct accepted token strings (exhaustive + simulated grammar derivations)")
    chk.assumptions = ["Ref in Expr.tla is the statement of R701-R723", "operand kinds and operator spellings are those listed in mbt/checks/expr.py"]
    return chk.finish()
