"""C19: the legacy statement-level parser (fparser1) round-trips its own output.

Programs are the behaviours of Grammar.tla restricted to the F77/F90 subset of the catalogue
(configs Grammar_one_*); free and fixed form; analyze in {False, True}.  The Fixpoint and
TokensPreserved laws of Session.tla are evaluated by TLC on sessions of fparser.api.parse."""
import json, re
from .. import common, tlc, programs, session, render, lexer, catalogue
from ..framework import Check, pmap, MachineryError


def body(text):
    """Regenerated source without the header comment line, indentation and label padding."""
    out = []
    for ln in text.split("\n"):
        if ln.lstrip().startswith("!BEGINSOURCE") or ln.lstrip().startswith("!      BEGINSOURCE") or "BEGINSOURCE" in ln[:20]:
            continue
        s = ln.strip()
        if not s:
            continue
        s = re.sub(r"^(\d+)\s+", r"\1 ", s)
        out.append(s)
    return "\n".join(out) + "\n"


def dedup(text):
    """Regenerated text without a labelled line that repeats the line before it (the shape of known finding KF-C19-1)."""
    out = []
    for ln in text.split("\n"):
        if out and ln == out[-1] and re.match(r"\d+ ", ln):
            continue
        out.append(ln)
    return "\n".join(out)


def joined_text(stmts, per):
    """Free-form text with up to `per` statements on a line, joined by ';' (indentation of the first one)."""
    lines = []
    cur = []
    for st in stmts:
        cur.append(render.stmt_line(st, indent=not cur).rstrip() if not cur else render.stmt_line(st, indent=False).strip())
        if len(cur) == per:
            lines.append("; ".join(cur))
            cur = []
    if cur:
        lines.append("; ".join(cur))
    return "\n".join(lines) + "\n"


def nest(tree, api):
    return [(d, type(st).__name__) for st, d in api.walk(tree)]


def observe(case):
    from .. import common as C
    C.use_repo_source()
    from fparser import api
    from .. import fp
    res = []
    for job in case["jobs"]:
        r = {"name": job["name"]}
        if job.get("need2"):
            # a stressed variant belongs to the class only if it is still Fortran: fparser2 serves as the judge of that
            o2, _t2 = fp.parse(fp.create("f2003"), job["src"])
            if o2["res"] != "ok":
                r.update(ok=False, err="not accepted by fparser2 (outside the class)")
                res.append(r)
                continue
        try:
            t1 = api.parse(job["src"], isfree=job["free"], isstrict=False, analyze=job["analyze"], ignore_comments=True)
            s1 = body(str(t1))
            r.update(ok=True, text=s1, nest=nest(t1, api))
            # printing is a pure function of the tree: the statements printed one by one, and the whole tree printed once more
            for st_, d_ in api.walk(t1):
                str(st_)
            r["text_again"] = body(str(t1))
            d1 = dedup(s1)
            if d1 != s1:
                # do the laws hold once the repeated terminator lines are taken out?  (decides whether a violation is the known finding)
                try:
                    td = api.parse(d1, isfree=True, isstrict=False, analyze=job["analyze"], ignore_comments=True)
                    r["modulo_dup"] = dedup(body(str(td))) == d1 and norm_tokens(d1) == norm_tokens(job["src_free"] if "src_free" in job else job["src"])
                except BaseException as e:  # noqa: BLE001
                    if isinstance(e, KeyboardInterrupt):
                        raise
                    r["modulo_dup"] = False
            try:
                t2 = api.parse(s1, isfree=True, isstrict=False, analyze=job["analyze"], ignore_comments=True)
                s2 = body(str(t2))
                r.update(ok2=True, text2=s2, nest2=nest(t2, api))
            except BaseException as e:  # noqa: BLE001
                if isinstance(e, KeyboardInterrupt):
                    raise
                r.update(ok2=False, err2="%s: %s" % (type(e).__name__, str(e)[:150]))
        except BaseException as e:  # noqa: BLE001
            if isinstance(e, KeyboardInterrupt):
                raise
            r.update(ok=False, err="%s: %s" % (type(e).__name__, str(e)[:150]))
        res.append(r)
    return {"id": case["id"], "res": res}


def norm_tokens(text):
    """Content tokens for the 'expression text carried over unchanged' clause: user names (compared without regard to case), numeric,
    BOZ and character literals and dotted operators in order; keywords, punctuation and '::' are
    fparser1's to canonicalise (REWIND 10 -> REWIND (10), COMMON // c -> COMMON c, DO 10, i -> DO 10 i)."""
    out = []
    for st in lexer.split_statements(text):
        toks = lexer.toks(st)
        words = [t.lower() for k, t in toks if k == "name"]
        if words[:1] == ["end"] or (toks and toks[0][0] == "num" and words[:1] == ["end"]):
            # END statements: fparser1 completes a bare END to END <kind> <name> (canonicalisation); keep the label only
            out.extend(t for k, t in toks[:1] if k == "num")
            continue
        if lexer.is_format(toks):
            out.append("".join(t.lower() for k, t in toks if t not in (",",) and k != "str") )
            out.extend(t for k, t in toks if k == "str")
            continue
        head = next((t.lower() for k, t in toks if k == "name"), "")
        for j, (k, t) in enumerate(toks):
            if k == "str":
                out.append(t)
            elif k in ("num", "boz", "dot"):
                out.append(t.lower())
            elif k == "op" and t in ("**", "//", "==", "/=", "<=", ">=", "=>") or (k == "sym" and t in "<>+"):
                # operators are expression text; the // of a leading blank common is fparser1's to drop (COMMON // c -> COMMON c)
                if t == "//" and head == "common" and j > 0 and toks[j - 1][1].lower() == "common":
                    continue
                out.append(t)
            elif k == "name":
                low = t.lower()
                if low not in lexer.KEYWORDS and low not in lexer.COMPOUND:
                    out.append(low)          # fparser1 works on the lower-cased statement: letter case of names is its to change
    return out


def keyword_counts(text):
    """Multiset of keyword tokens outside END statements (fparser1 may add keywords, it must not drop any)."""
    from collections import Counter
    c = Counter()
    for st in lexer.split_statements(text):
        toks = lexer.toks(st)
        words = [t.lower() for k, t in toks if k == "name"]
        if words[:1] == ["end"] or lexer.is_format(toks):
            continue
        for w in words:
            for x in lexer.COMPOUND.get(w, [w]):
                if x in lexer.KEYWORDS:
                    c[x] += 1
    return c


def dropped_keywords(src, out):
    a, b = keyword_counts(src), keyword_counts(out)
    return sorted(k for k in a if b.get(k, 0) < a[k])


def run(prop, tier=None, replay=None):
    chk = Check("C19", "exploration", tier)
    tier = chk.tier
    programs.ensure_generated()
    if replay:
        progs = [json.load(open(replay))["replay"]["prog"]]
    else:
        progs = []
        for cfg, kw in (("Grammar_one_exh.cfg", {}), ("Grammar_one_sweep.cfg", {}),
                        ("Grammar_one_sim.cfg", dict(workers=8, simulate=dict(num=30 if tier == "quick" else 1500, depth=150), seed=chk.seed + 17))):
            r = tlc.run("MCGrammar.tla", cfg, timeout=6000, **kw)
            if not r.ok():
                raise MachineryError("TLC failed on %s: %s %s" % (cfg, r.invariant_violated, r.error))
            chk.add_tlc(r)
            beh = sorted(r.beh, key=lambda b: json.dumps(b["out"]))
            if tier == "quick" and "exh" in cfg:
                beh = beh[chk.seed % 8::8]
            for b in beh:
                progs.append({"out": b["out"], "fam": cfg.split("_")[2].split(".")[0]})
    # metamorphic placeholder stress (as in C02): one operand of the statement carrying the non-default variant is replaced by a
    # bracketed / quoted / exponent expression; claimed only if fparser1 accepts the result
    if not replay:
        from . import roundtrip
        extra = []
        for p in progs:
            if p["fam"] == "sweep" and not any(r_["k"] == "s" and catalogue.SIMPLE[r_["v"] - 1]["solo"] for r_ in p["out"]):
                p["stmts"] = render.stmts_of(p["out"])
                for t in roundtrip.stressed_variants(p, 2 if tier == "quick" else 6):
                    extra.append({"out": p["out"], "fam": "stress", "text": t})
                del p["stmts"]
        progs.extend(extra)
    chk.phase("generate")
    from .sourceform import fixed_render
    cases = []
    for i, p in enumerate(progs):
        stmts = render.stmts_of(p["out"])
        free = p.get("text") or render.free_text(stmts)
        p["src"] = free
        jobs = [dict(name="free", src=free, free=True, analyze=bool(i % 2), need2=(p["fam"] == "stress"))]
        if p["fam"] != "stress" and (tier != "quick" or i % 4 == 1):
            # the same statements two or three to a line, separated by ';'
            jobs.append(dict(src_free=free, name="joined", src=joined_text(stmts, 2 + i % 2), free=True, analyze=bool((i // 2) % 2)))
        if p["fam"] == "stress":
            pass
        elif tier != "quick" or i % 3 == 0:
            jobs.append(dict(src_free=free, name="fixed", src=fixed_render(stmts, 72, "&" if i % 2 else "1", "C", i), free=False, analyze=bool((i // 2) % 2)))
        if tier != "quick":
            jobs.append(dict(name="free2", src=free, free=True, analyze=not bool(i % 2), need2=(p["fam"] == "stress")))
        cases.append({"id": i, "jobs": jobs, "prog": p})
    res = pmap(observe, [{"id": c["id"], "jobs": c["jobs"]} for c in cases], timeout=120, batch=16)
    chk.phase("observe")
    D = session.Digests()
    events = []
    info = {}
    ctr = [0]
    skipped = 0
    for c, r in zip(cases, res):
        if "__timeout__" in r or "__died__" in r:
            chk.violation({"clause": "no-result"}, "C19: no result for\n%s" % c["prog"]["src"][:400], {"prog": c["prog"]})
            continue
        for job, x in zip(c["jobs"], r["res"]):
            chk.count()
            if not x["ok"]:
                skipped += 1           # the property is conditional on acceptance by fparser1
                continue
            tid = len(info) + 1
            info[tid] = (c, job, x)
            cfg = session.cfg_id("one", True, False, False, "%s/%s" % (job["name"], job["analyze"]))
            s0 = D("src:" + job["src"])
            s1 = D("src:" + x["text"])
            ev = [{"e": "begin", "t": tid}]
            ctr[0] += 1
            t1 = ctr[0]
            ev.append({"e": "parse", "src": s0, "cfg": cfg, "res": "ok", "tree": t1, "st": D(repr(x["nest"])), "sci": 0, "line": 0, "q": 0})
            ev.append({"e": "print", "tree": t1, "text": s1, "tci": 0})
            if x.get("ok2"):
                ctr[0] += 1
                t2 = ctr[0]
                ev.append({"e": "parse", "src": s1, "cfg": cfg, "res": "ok", "tree": t2, "st": D(repr(x["nest2"])), "sci": 0, "line": 0, "q": 0})
                ev.append({"e": "print", "tree": t2, "text": D("src:" + x["text2"]), "tci": 0})
            else:
                ev.append({"e": "parse", "src": s1, "cfg": cfg, "res": "esc", "tree": 0, "st": 0, "sci": 0, "line": 0, "q": 0})
            if x.get("text_again") is not None and x["text_again"] != x["text"]:
                chk.violation({"clause": "second-print-differs"}, "C19: printing the same tree twice gives different text (%s, analyze=%s)\n--- first\n%s--- second\n%s" % (
                    job["name"], job["analyze"], x["text"][:400], x["text_again"][:400]), {"prog": c["prog"], "clause": "second-print-differs"})
            dk = dropped_keywords(c["prog"]["src"], x["text"])
            x["dropped"] = dk
            ev.append({"e": "toks", "text": s0, "tk": D(repr(norm_tokens(c["prog"]["src"])) + "|dropped:[]")})
            ev.append({"e": "toks", "text": s1, "tk": D(repr(norm_tokens(x["text"])) + "|dropped:" + repr(dk))})
            ev.append({"e": "claim", "law": "fixpoint", "src": s0, "cfg": cfg})
            ev.append({"e": "claim", "law": "tokens", "src": s0, "cfg": cfg})
            events.extend(ev)
            chk.distinct(x["text"])
    rej = session.validate(chk, events)
    chk.phase("validate")
    for tid, clause in rej:
        c, job, x = info[tid]
        extra = ""
        labs = [r_["l"] for r_ in c["prog"]["out"] if r_["k"] == "dol"]
        shared = len(labs) != len(set(labs))
        if clause == "tokens-differ":
            a, b = norm_tokens(c["prog"]["src"]), norm_tokens(x["text"])
            k = next((i for i, (u, v) in enumerate(zip(a, b)) if u != v), min(len(a), len(b)))
            extra = "first difference at token %d: source %s / output %s" % (k, a[max(0, k - 3):k + 4], b[max(0, k - 3):k + 4])
            sig = {"clause": clause, "src_tok": a[k] if k < len(a) else None, "out_tok": b[k] if k < len(b) else None}
            if re.search(r"^\s*(\d+\s+)?allocate\s*\([^)]*\)\s*=", c["prog"]["src"], re.M | re.I):
                sig["assignment_to_an_array_named_allocate"] = True
            if a == b and x.get("dropped"):
                extra = "keywords of the source missing in the output: %s" % x["dropped"]
                sig = {"clause": "keyword-dropped", "kw": ",".join(x["dropped"])}
        else:
            sig = {"clause": clause, "err": (x.get("err2") or "")[:40]}
        if shared:
            sig = {"clause": clause, "program_has_do_loops_sharing_a_label": True,
                   "laws_hold_once_the_repeated_terminator_is_removed": bool(x.get("modulo_dup"))}
        chk.violation(sig, "C19: %s (%s, analyze=%s) %s %s\n--- source\n%s--- output\n%s" % (clause, job["name"], job["analyze"], extra, x.get("err2", ""), job["src"][:500], x["text"][:500]),
                      {"prog": c["prog"], "clause": clause})
    chk.cov["skipped_not_accepted_by_fparser1"] = skipped
    for c in cases[:: max(1, len(cases) // 3)][:3]:
        chk.sample({"family": c["prog"]["fam"], "source": c["prog"]["src"]})
    chk.cov["rule"] = ("programs = behaviours of Grammar.tla restricted to the F77/F90 subset (exhaustive reduced alphabet - quick replays 1/8 -, variant sweep, TLC -simulate); one evaluation = one "
                       "(program, source form, analyze) run of fparser.api.parse with re-parse of its output; distinct_nontrivial = distinct regenerated texts")
    chk.assumptions = ["the F77/F90 subset is the set of catalogue entries flagged one=True", "the property is conditional on acceptance: programs fparser1 refuses are counted and skipped"]
    return chk.finish()
