"""C09: a parse is a function of its input; failures leave nothing behind.

Lifecycle.tla enumerates every history over {create(f2003), create(f2008), parse(valid_i),
parse(invalid_j)}; each is replayed in a forked child of a parent that has only imported
fparser, comparing the projection (current scope, table names) with the model after every step
and the final create(s);parse(x) with a fresh process.  In addition the protocol traces of
failing parses (garbage statements, ill-nested streams) are validated against
TraceParseProto.tla (clause FinishFse = nothing left behind)."""
import json, os
from .. import common, tlc, programs, render, perturb
from ..framework import Check, pmap, MachineryError

TEXT = {
    "V1": "subroutine a\n real :: sin\n x = sin(1.0)\nend subroutine a\n",
    "V2": "module m\n integer :: k\nend module m\nprogram p\n use m\n if (k > 0) then\n   k = abs(k)\n end if\nend program p\n",
    "V3": "x = 1\nend\n",
    "V4": "program o\n open(unit=10, file='f.dat', status='old')\n allocate(w(2), stat=ierr)\n write(10, *) 'total: ', x ! report\n stop 1\nend program o\n",
    # names that are intrinsic from Fortran 2008 on: references in a 2003 parse must not colour a later 2008 parse (and vice versa)
    "V5": "subroutine g\n y = erf(x) + gamma(x) + shiftl(i, 2)\n print *, 'y = ', y ! show it\nend subroutine g\n",
    # labelled DO loops that end on an action statement (which statements may do that differs between the standards' class lists)
    "V6": "subroutine h\n do 10 i = 1, 2\n 10 if (x > 0) y = 1\n do 20 i = 1, 2\n 20 allocate(w(2))\n do 30 i = 1, 2\n 30 open(10)\nend subroutine h\n",
    # a unit name with capital letters, parsed successfully ...
    "V7": "subroutine Grid_Tools\n real :: sin\n x = sin(1.0)\nend subroutine Grid_Tools\n",
    "I1": "subroutine a\n real :: cos\n @@ bad\nend subroutine a\n",
    # ... and a failing unit of that name
    "I8": "subroutine Grid_Tools\n real :: cos\n @@ bad\nend subroutine Grid_Tools\n",
    "I2": "subroutine a\n real :: cos\n if (x) then\n end if wrong\nend subroutine a\n",
    "I3": "real :: cos\nx = 1\nif (x > 0) then\nend if wrong\nend\n",
    "I4": "subroutine a\n real :: sin\n x = cos(1, 2)\nend subroutine a\n",
    "I5": "subroutine a\n real :: sin\nend subroutine a\nsubroutine b\n real :: cos\n @@\nend subroutine b\n",
    "I6": "module a\n real :: sin\ncontains\n subroutine b\n real :: cos\n end subroutine wrong\nend module a\n",
    # a failing CONTAINED unit that carries the name of a top-level unit of an earlier parse (V1)
    "I7": "module m2\ncontains\n subroutine a\n real :: cos\n @@ bad\n end subroutine a\nend module m2\n",
}
PROBES = {
    "X1": "subroutine a\n x = sin(1.0) + cos(2.0)\nend subroutine a\n",
    "X2": "program q\n block\n integer :: i\n end block\n b2: block\n end block b2\n x = cos(y)\nend program q\n",
    "X3": "module a\n real :: cos\ncontains\n subroutine b\n y = cos(1.0) + sin(1.0)\n end subroutine b\nend module a\n",
    "X4": "program r\n open(newunit=u, file='f')\n error stop\n y = sin(x)\nend program r\n",
    "X6": "subroutine h\n do 10 i = 1, 2\n 10 if (x > 0) y = 1\n do 20 i = 1, 2\n 20 allocate(w(2))\n do 30 i = 1, 2\n 30 open(10)\n z = sin(x)\nend subroutine h\n",
    "X7": "subroutine Grid_Tools\n x = sin(1.0) + cos(2.0)\nend subroutine Grid_Tools\n",
    "X5": "subroutine g\n y = erf(x) + gamma(x) + shiftl(i, 2)\n print *, 'y = ', y ! show it\n write(10, *) 'total: ', x ! report\nend subroutine g\n",
}


def session(case):
    """Replay one history; returns the projections after each step and the final result."""
    from .. import fp
    steps = []
    P = None
    for op, arg in case["hist"] + [["create", case["std"]], ["probe", case["probe"]]]:
        if op == "create":
            P = fp.create(arg)
            steps.append({"op": op, "arg": arg, "scope": fp.scope() or "", "tables": fp.table_names(), "forest": fp.tables()})
        else:
            src = PROBES[arg] if op == "probe" else TEXT[arg]
            o, t = fp.parse(P, src)
            st = {"op": op, "arg": arg, "res": o["res"], "scope": fp.scope() or "", "tables": fp.table_names(), "forest": fp.tables(),
                  "esc": (o.get("type"), o.get("site")) if o["res"] == "esc" else None}
            if op == "probe":
                st["struct"] = fp.struct(t) if t is not None else None
                st["text"] = fp.text(t) if t is not None else None
                st["line"] = o.get("line")
            steps.append(st)
    return {"id": case["id"], "steps": steps}


UNITS = {"V1": {"a"}, "V2": {"m", "p"}, "V3": {"fparser2:main_program"}, "V4": {"o"}, "V5": {"g"}, "V6": {"h"}, "V7": {"grid_tools"}}


def failing_traces(case):
    from .. import probe
    return [probe.record(tid, src, "f2008", ignore_comments=ic)[0] for tid, src, ic in case["items"]]


def run(prop, tier=None, replay=None):
    chk = Check("C09", "model_checking", tier)
    tier = chk.tier
    programs.ensure_generated()
    if replay:
        rp = json.load(open(replay))["replay"]
        cases = [rp["case"]]
    else:
        # design-level: the model satisfies the property, and does not with the pinned tree's leaks enabled
        cfg = "Lifecycle_3.cfg" if tier == "quick" else "Lifecycle_4.cfg"
        r = tlc.run("MCLifecycle.tla", cfg, workers=4, timeout=3000)
        if not r.ok():
            raise MachineryError("TLC failed on %s: %s %s" % (cfg, r.invariant_violated, r.error))
        chk.add_tlc(r)
        rd = tlc.run("MCLifecycle.tla", "Lifecycle_defects.cfg", workers=4, timeout=3000)
        if rd.invariant_violated is None:
            raise MachineryError("non-vacuity run failed: Lifecycle.tla with KnownDefects=TRUE satisfies its invariants")
        chk.cov["nonvacuity"] = "Lifecycle.tla with KnownDefects=TRUE violates %s" % rd.invariant_violated
        # the protocol contract as a stand-alone model (the trace specification below drives the same contract with real events)
        rp = tlc.run("ParseProto.tla", "ParseProto.cfg", workers=4, timeout=3000, coverage=True)
        if not rp.ok():
            raise MachineryError("TLC failed on ParseProto.cfg: %s %s" % (rp.invariant_violated, rp.error))
        chk.add_tlc(rp)
        never = [a for a in ("Get", "Put", "BEnter", "BExitOk", "BExitFail", "Raise", "Unwind", "FinishOk", "FinishErr") if not rp.coverage.get(a)]
        if never:
            raise MachineryError("vacuity: actions of ParseProto.tla never taken: %s" % never)
        rpd = tlc.run("ParseProto.tla", "ParseProto_defects.cfg", workers=4, timeout=3000)
        if rpd.invariant_violated != "NothingLeftBehind":
            raise MachineryError("non-vacuity run failed: ParseProto.tla with KnownDefects=TRUE does not violate NothingLeftBehind")
        chk.cov["nonvacuity"] += "; ParseProto.tla with KnownDefects=TRUE violates NothingLeftBehind; every action of ParseProto.tla is taken (coverage)"
        hists = sorted((b["hist"] for b in r.beh), key=lambda h: (len(h), json.dumps(h)))
        if tier == "quick":
            short = [h for h in hists if len(h) <= 2]
            longer = [h for h in hists if len(h) == 3]
            # every history of length 3 is replayed (with one of the eight final (standard, probe) combinations each)
            hists = short + longer
        cases = []
        combos = [(s, p) for s in ("f2003", "f2008") for p in sorted(PROBES)]
        for hi, h in enumerate(hists):
            for ci, (std, pr) in enumerate(combos):
                if tier == "quick" and len(h) > 2 and ci != hi % len(combos):
                    continue
                cases.append({"id": len(cases) + 1, "hist": h, "std": std, "probe": pr})
        # fresh-process references
        refs = [{"id": -i, "hist": [], "std": std, "probe": pr} for i, (std, pr) in enumerate([(s, p) for s in ("f2003", "f2008") for p in sorted(PROBES)], 1)]
    chk.phase("generate")
    if replay:
        refs = [{"id": -1, "hist": [], "std": cases[0]["std"], "probe": cases[0]["probe"]}]
    res = pmap(session, refs + cases, chunksize=1, timeout=300)
    chk.phase("replay")
    fresh = {}
    for c, r in zip(refs, res[:len(refs)]):
        if "__timeout__" in r or "__died__" in r:
            raise MachineryError("reference session failed")
        fresh[(c["std"], c["probe"])] = r["steps"][-1]
    for c, r in zip(cases, res[len(refs):]):
        chk.count()
        chk.cov["traces_validated_against_impl"] += 1
        chk.distinct(json.dumps(c["hist"]))
        if "__timeout__" in r or "__died__" in r:
            chk.violation({"clause": "no-result"}, "C09: session did not return: %s" % c, {"case": c})
            continue
        tables = set()
        bad = None
        forest = []
        polluted = False
        for st in r["steps"]:
            op, arg = st["op"], st["arg"]
            prev_forest, forest = forest, st.get("forest", [])
            if op == "fail" and st["res"] != "ok" and st["scope"] == "" and set(st["tables"]) == tables and forest != prev_forest:
                # same table names, but the content of a table changed: the failed parse re-used an existing table
                bad = ("failure-left-symbols-in-an-existing-table", st)
                polluted = True
                break
            if op == "create":
                tables = set()
                exp_scope = ""
            elif op == "ok":
                if st["res"] != "ok":
                    bad = ("valid-program-rejected", st)
                    break
                tables = tables | UNITS[arg]
            elif op == "fail":
                if st["res"] == "ok":
                    bad = ("invalid-program-accepted", st)
                    break
                if st["scope"] != "" or set(st["tables"]) != tables:
                    bad = ("failure-left-state-behind", st)
                    break
            if op in ("create", "ok") and (st["scope"] != "" or set(st["tables"]) != tables):
                bad = ("projection-differs-from-model", st)
                break
        if bad is None:
            f = fresh[(c["std"], c["probe"])]
            last = r["steps"][-1]
            from ..fp import renumber_blocks
            if (last["res"], last["struct"] and renumber_blocks(last["struct"]), last["text"], last["line"]) != \
                    (f["res"], f["struct"] and renumber_blocks(f["struct"]), f["text"], f["line"]):
                bad = ("result-depends-on-history", last)
        if bad:
            st = bad[1]
            sig = {"clause": bad[0], "op": st["op"], "arg": st["arg"]}
            if polluted:
                sig = {"clause": bad[0]}
            chk.violation(sig, "C09: %s after history %s ; create(%s) ; parse(%s): step %s" % (bad[0], c["hist"], c["std"], c["probe"], {k: st[k] for k in st if k not in ("struct", "text", "forest")}),
                          {"case": c, "clause": bad[0]})
    # failing parses observed at the protocol level
    if not replay:
        from . import perturbed
        sub = Check("C09", "model_checking", tier)   # scratch accounting for generation only
        behs = perturbed.generate(sub, "C07", "quick", chk.seed)
        chk.cov["states"] += sub.cov["states"]
        chk.cov["transitions"] += sub.cov["transitions"]
        items = []
        step = max(1, len(behs) // (400 if tier == "quick" else 4000))
        for b in behs[::step]:
            lay = perturb.layout(b["out"], b["ed"])
            items.append((len(items) + 1, perturb.text_of(lay), len(items) % 2 == 0))
        for k in sorted(TEXT):
            if k.startswith("I"):
                items.append((len(items) + 1, TEXT[k], True))
        chunks = [items[i::16] for i in range(16)]
        out = pmap(failing_traces, [{"id": i, "items": ch} for i, ch in enumerate(chunks) if ch], chunksize=1, timeout=600)
        traces = [t for o in out if isinstance(o, list) for t in o]
        from .. import proto
        rej = proto.validate(chk, traces)
        src_of = {tid: src for tid, src, _ in items}
        for tid, clause in rej:
            if clause in proto.PROPERTY_CLAUSES and clause in ("FinishFse",):
                chk.violation({"clause": "protocol-" + clause}, "C09: protocol trace of a failing parse rejected by TraceParseProto (%s):\n%s" % (clause, src_of[tid][:500]),
                              {"src": src_of[tid], "clause": clause})
            elif clause in proto.MECHANISM_CLAUSES:
                chk.note("mechanism-deviation %s in trace %d" % (clause, tid))
        chk.count(len(traces))
    chk.phase("protocol")
    for c in cases[:: max(1, len(cases) // 3)][:3]:
        chk.sample({"history": c["hist"], "then": ["create", c["std"], "parse", c["probe"]]})
    chk.cov["exhaustive"] = tier != "quick"
    chk.cov["rule"] = ("sessions = behaviours of Lifecycle.tla (all histories up to length %s; quick samples length 3) x final standard x probe program, each replayed in a fresh "
                       "forked process; plus protocol traces of failing parses validated against TraceParseProto.tla; distinct_nontrivial = distinct histories" % ("3" if tier == "quick" else "4"))
    chk.assumptions = ["programs of the alphabet are those in mbt/checks/lifecycle.py", "the parent process has only imported fparser before forking"]
    return chk.finish()
