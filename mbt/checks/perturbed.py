"""C07 error line, C08 ill-nested input, C11 comments, C13 INCLUDE, C14 cpp directives,
C15 OpenMP sentinels: behaviours of Perturb.tla replayed into the real library; the laws of
Session.tla decide (DESIGN.md 4.2, 6)."""
import json, os
from .. import common, tlc, programs, session, obs, perturb, render
from ..framework import Check, pmap, MachineryError

LEVEL = "model_checking"
QUICK_CAP = {"C04": 5000, "C11": 6000, "C14": 6000, "C07": 6000, "C08": 6000, "C13": 4000, "C15": 1200}
SIM_NUM = {"quick": 40, "thorough": 1500}
CASE_TIMEOUT_S = 30


def generate(chk, prop, tier, seed):
    programs.ensure_generated()
    low = prop.lower()
    behs = []
    cfg = "Perturb_%s_%s.cfg" % (low, "quick" if tier == "quick" else "thorough")
    r = tlc.run("MCPerturb.tla", cfg, timeout=6000)
    if not r.ok():
        raise MachineryError("TLC failed on %s: %s %s" % (cfg, r.invariant_violated, r.error))
    chk.add_tlc(r)
    chk.cov.setdefault("tlc_runs", []).append({"cfg": cfg, "generated": r.generated, "distinct": r.distinct, "behaviours": len(r.beh), "wall_s": r.wall_s})
    exh = [b for b in r.beh if b["ed"]]
    exh.sort(key=lambda b: json.dumps([b["out"], b["ed"]], sort_keys=True))
    total_exh = len(exh)
    if tier == "quick" and len(exh) > QUICK_CAP[prop]:
        step = len(exh) / float(QUICK_CAP[prop])
        exh = [exh[int(i * step)] for i in range(QUICK_CAP[prop])]
    for b in exh:
        b["fam"] = "exh"
    behs.extend(exh)
    if prop == "C07":
        cfg = "Perturb_c07u_%s.cfg" % ("quick" if tier == "quick" else "thorough")
        r = tlc.run("MCPerturb.tla", cfg, timeout=6000)
        if not r.ok():
            raise MachineryError("TLC failed on %s: %s %s" % (cfg, r.invariant_violated, r.error))
        chk.add_tlc(r)
        chk.cov["tlc_runs"].append({"cfg": cfg, "generated": r.generated, "distinct": r.distinct, "behaviours": len(r.beh), "wall_s": r.wall_s})
        for b in r.beh:
            if b["ed"]:
                b["fam"] = "exh-unit-sequences"
                behs.append(b)
    if prop == "C04":
        # every catalogue variant continued at every token boundary (sweep: one non-default variant per program, the edit on that statement)
        for part in ("exec", "decl", "type"):
            cfg = "Perturb_c04v_%s_%s.cfg" % (part, "quick" if tier == "quick" else "thorough")
            r = tlc.run("MCPerturb.tla", cfg, timeout=20000)
            if not r.ok():
                raise MachineryError("TLC failed on %s: %s %s" % (cfg, r.invariant_violated, r.error))
            chk.add_tlc(r)
            chk.cov["tlc_runs"].append({"cfg": cfg, "generated": r.generated, "distinct": r.distinct, "behaviours": len(r.beh), "wall_s": r.wall_s})
            for b in r.beh:
                if b["ed"] and any(x["v"] > 1 for x in b["out"]):
                    b["fam"] = "variant-sweep"
                    behs.append(b)
    if prop == "C04":
        # a continuation inside the prefix of a statement (behind the label, inside / behind 'name:'), labelled and named constructs;
        # every layout edit on every subroutine / function header variant
        for cfg, fam in (("Perturb_c04l_%s.cfg" % ("quick" if tier == "quick" else "thorough"), "exh-prefix-breaks"), ("Perturb_c04u_quick.cfg", "exh-unit-headers"),
                         ("Perturb_c04j_quick.cfg", "exh-joined-variants")):
            r = tlc.run("MCPerturb.tla", cfg, timeout=20000)
            if not r.ok():
                raise MachineryError("TLC failed on %s: %s %s" % (cfg, r.invariant_violated, r.error))
            chk.add_tlc(r)
            chk.cov["tlc_runs"].append({"cfg": cfg, "generated": r.generated, "distinct": r.distinct, "behaviours": len(r.beh), "wall_s": r.wall_s})
            for b in r.beh:
                if not b["ed"]:
                    continue
                e = b["ed"][0]
                if fam == "exh-prefix-breaks":
                    o = b["out"][e["pos"] - 1] if e["pos"] <= len(b["out"]) else None
                    if not (e["t"] == "brk" and e["a"] in (8, 9) and o and ((o["l"] and o["k"] != "dol") or (o["n"] and o["k"] not in ("end", "endu", "enddo")))):
                        continue
                elif fam == "exh-joined-variants":
                    # every statement variant on one line with the statement before / behind it (an IF-THEN among them)
                    if not any(x["v"] > 1 and x["k"] == "s" for x in b["out"][max(0, e["pos"] - 1):e["pos"] + 1]):
                        continue
                elif e["pos"] != 1 and e["t"] != "case":
                    continue
                b["fam"] = fam
                behs.append(b)
    if prop == "C11":
        cfg = "Perturb_c11j_%s.cfg" % ("quick" if tier == "quick" else "thorough")
        r = tlc.run("MCPerturb.tla", cfg, timeout=6000)
        if not r.ok():
            raise MachineryError("TLC failed on %s: %s %s" % (cfg, r.invariant_violated, r.error))
        chk.add_tlc(r)
        chk.cov["tlc_runs"].append({"cfg": cfg, "generated": r.generated, "distinct": r.distinct, "behaviours": len(r.beh), "wall_s": r.wall_s})
        for b in r.beh:
            if any(e["t"] == "join" and e["a"] > 0 for e in b["ed"]):
                b["fam"] = "exh-joined"
                behs.append(b)
    if prop == "C11":
        # two full-line comments at one boundary, in both orders (a directive-form comment behind a plain one and the reverse)
        cfg = "Perturb_c11p_quick.cfg"
        r = tlc.run("MCPerturb.tla", cfg, timeout=6000)
        if not r.ok():
            raise MachineryError("TLC failed on %s: %s %s" % (cfg, r.invariant_violated, r.error))
        chk.add_tlc(r)
        chk.cov["tlc_runs"].append({"cfg": cfg, "generated": r.generated, "distinct": r.distinct, "behaviours": len(r.beh), "wall_s": r.wall_s})
        for b in r.beh:
            e = b["ed"]
            if len(e) == 2 and e[0]["pos"] == e[1]["pos"] and e[0]["a"] == 1 and e[1]["a"] == 1 and (tier != "quick" or (e[0]["b"] in (6, 7)) != (e[1]["b"] in (6, 7))):
                b["fam"] = "exh-comment-pairs"
                behs.append(b)
    if prop == "C11":
        cfg = "Perturb_c11s_%s.cfg" % ("quick" if tier == "quick" else "thorough")
        r = tlc.run("MCPerturb.tla", cfg, timeout=6000)
        if not r.ok():
            raise MachineryError("TLC failed on %s: %s %s" % (cfg, r.invariant_violated, r.error))
        chk.add_tlc(r)
        chk.cov["tlc_runs"].append({"cfg": cfg, "generated": r.generated, "distinct": r.distinct, "behaviours": len(r.beh), "wall_s": r.wall_s})
        for b in r.beh:
            if any(e["t"] == "cmt" and e["a"] in (3, 4, 5) for e in b["ed"]):
                b["fam"] = "exh-literals"
                behs.append(b)
    if prop == "C08":
        # second exhaustive family: an END-name edit together with a comment / directive line (which BlockBase collects in front of
        # the opening statement it then compares the END name with)
        cfg = "Perturb_c08b_%s.cfg" % ("quick" if tier == "quick" else "thorough")
        r = tlc.run("MCPerturb.tla", cfg, timeout=6000)
        if not r.ok():
            raise MachineryError("TLC failed on %s: %s %s" % (cfg, r.invariant_violated, r.error))
        chk.add_tlc(r)
        chk.cov["tlc_runs"].append({"cfg": cfg, "generated": r.generated, "distinct": r.distinct, "behaviours": len(r.beh), "wall_s": r.wall_s})
        for b in r.beh:
            if any(e["t"] == "ren" for e in b["ed"]):
                b["fam"] = "exh-ren-cmt"
                behs.append(b)
    if prop == "C08":
        from .. import catalogue as _cat
        for cfg, kinds in (("Perturb_c08p_%s.cfg" % ("quick" if tier == "quick" else "thorough"), (_cat.OPEN, _cat.MIDS)), ("Perturb_c08u_quick.cfg", (_cat.UNIT,))):
            r = tlc.run("MCPerturb.tla", cfg, timeout=6000)
            if not r.ok():
                raise MachineryError("TLC failed on %s: %s %s" % (cfg, r.invariant_violated, r.error))
            chk.add_tlc(r)
            chk.cov["tlc_runs"].append({"cfg": cfg, "generated": r.generated, "distinct": r.distinct, "behaviours": len(r.beh), "wall_s": r.wall_s})
            for b in r.beh:
                # the parenthesis edit sits on the opening statement (or a part) of the construct / on the unit header
                if b["ed"] and b["ed"][0]["pos"] <= len(b["out"]) and any(b["out"][b["ed"][0]["pos"] - 1]["k"] in K for K in kinds):
                    b["fam"] = "exh-parentheses"
                    behs.append(b)
    if prop == "C08":
        # the same single structural edits over the remaining construct kinds and TYPE / INTERFACE / ENUM definitions
        cfg = "Perturb_c08c_%s.cfg" % ("quick" if tier == "quick" else "thorough")
        r = tlc.run("MCPerturb.tla", cfg, timeout=6000)
        if not r.ok():
            raise MachineryError("TLC failed on %s: %s %s" % (cfg, r.invariant_violated, r.error))
        chk.add_tlc(r)
        chk.cov["tlc_runs"].append({"cfg": cfg, "generated": r.generated, "distinct": r.distinct, "behaviours": len(r.beh), "wall_s": r.wall_s})
        for b in r.beh:
            if b["ed"]:
                b["fam"] = "exh-other-constructs"
                behs.append(b)
    if prop == "C08":
        # third family: ALL statement streams up to a bound over an alphabet of structural items, judged by Nest (Streams.tla)
        for cfg in (["Streams_quick3.cfg", "Streams_quick.cfg"] if tier == "quick" else ["Streams_thorough.cfg", "Streams_do.cfg"]):
            r = tlc.run("MCStreams.tla", cfg, timeout=20000)
            if not r.ok():
                raise MachineryError("TLC failed on %s: %s %s" % (cfg, r.invariant_violated, r.error))
            chk.add_tlc(r)
            chk.cov["tlc_runs"].append({"cfg": cfg, "generated": r.generated, "distinct": r.distinct, "behaviours": len(r.beh), "wall_s": r.wall_s})
            for b in r.beh:
                behs.append({"fam": "streams", "stream": b["st"], "valid": b["valid"], "wrap": b.get("wrap", "prog"), "out": [], "ed": [{"t": "stream", "pos": 0, "a": 0, "b": 0}], "edited": []})
        # the same inside a SUBROUTINE / FUNCTION, the alphabet holding the END of that subprogram: END SUBROUTINE is an
        # action-stmt (R214), yet no DO rule may take it as a terminator (C824 / C826); only the streams that hold it
        for w in ("sub", "fun"):
            cfg = "Streams_%s_%s.cfg" % (w, "quick" if tier == "quick" else "thorough")
            r = tlc.run("MCStreams.tla", cfg, timeout=20000)
            if not r.ok():
                raise MachineryError("TLC failed on %s: %s %s" % (cfg, r.invariant_violated, r.error))
            chk.add_tlc(r)
            chk.cov["tlc_runs"].append({"cfg": cfg, "generated": r.generated, "distinct": r.distinct, "behaviours": len(r.beh), "wall_s": r.wall_s})
            for b in r.beh:
                if "endu" in b["st"]:
                    behs.append({"fam": "streams-unit-end", "stream": b["st"], "valid": b["valid"], "wrap": b["wrap"], "out": [], "ed": [{"t": "stream", "pos": 0, "a": 0, "b": 0}], "edited": []})
    cfg = "Perturb_%s_sim.cfg" % low
    r = tlc.run("MCPerturb.tla", cfg, workers=8, simulate=dict(num=SIM_NUM[tier], depth=220), seed=seed + 7, timeout=6000)
    if not r.ok():
        raise MachineryError("TLC failed on %s: %s %s" % (cfg, r.invariant_violated, r.error))
    chk.add_tlc(r)
    chk.cov["tlc_runs"].append({"cfg": cfg, "generated": r.generated, "behaviours": len(r.beh), "wall_s": r.wall_s})
    for b in r.beh:
        if b["ed"] and (prop != "C07" or any(e["t"] == "garb" for e in b["ed"])) and (prop != "C15" or any(e["t"] == "sent" for e in b["ed"])):
            b["fam"] = "sim"
            behs.append(b)
    chk.cov["exhaustive_behaviours_total"] = total_exh
    chk.cov["exhaustive"] = (tier != "quick" or total_exh <= QUICK_CAP[prop])
    for i, b in enumerate(behs):
        b["id"] = i + 1
    return behs


def std_of(b):
    return "f2008"


# --------------------------------------------------------------------------- case builders
def build_case(prop, b):
    """-> case dict with parse jobs for obs.run_jobs"""
    out, ed = b["out"], b["ed"]
    stmts = render.stmts_of(out)
    base_src = render.free_text(stmts)
    std = "f2008"
    jobs = []
    meta = {}
    if prop in ("C11", "C14", "C07", "C15"):
        lay = perturb.layout(out, ed)
        src = perturb.text_of(lay)
    if prop == "C11":
        jobs = [dict(name="P", src=base_src, std=std, ic=True, want=["leaves"]),
                dict(name="keep", src=src, std=std, ic=False, want=["leaves", "textfull"]),
                dict(name="ignore", src=src, std=std, ic=True),
                dict(name="dirs", src=src, std=std, ic=False, pd=True, want=["leaves"])]
    elif prop == "C14":
        jobs = [dict(name="P", src=base_src, std=std, ic=True, want=["leaves"]),
                dict(name="keep", src=src, std=std, ic=False, want=["leaves", "stripcpp", "textfull"]),
                dict(name="ignore", src=src, std=std, ic=True, want=["leaves", "stripcpp"])]
        # the same insertions in fixed form (explicitly selected: a '#' in column 1 makes the detector say "free")
        per = fixed_lines_per_stmt(stmts)
        flines = []
        for i in range(1, len(stmts) + 2):
            for e in ed:
                if e["t"] == "cpp" and e["pos"] == i:
                    flines.extend(perturb.CPP[e["a"]] + (perturb.CPP[e["b"]] if e.get("b") else []))
            if i <= len(stmts):
                flines.extend(per[i - 1])
        if not any(e["t"] == "cmt" for e in ed):
            jobs.append(dict(name="fix", src="\n".join(flines) + "\n", std=std, ic=True, fmt=(False, False), want=["leaves", "stripcpp"]))
    elif prop == "C07":
        g = next(e for e in ed if e["t"] == "garb")
        line = lay["last_line"][g["pos"]]
        if line != b["garbline"]:
            raise MachineryError("line arithmetic of Perturb.tla (%d) and of the renderer (%d) disagree" % (b["garbline"], line))
        meta = {"line": line, "quoted": lay["phys"][line - 1][1]}
        jobs = [dict(name="keep", src=src, std=std, ic=False), dict(name="ignore", src=src, std=std, ic=True)]
        if b["id"] % 4 == 0 and not any(l.startswith("#") for _, l in lay["phys"]) and max(len(l) for _, l in lay["phys"]) < 60:
            # the same free-form text indented by six blanks under an indented comment line (free form: a '!' comment that does
            # not start in column 1, nothing in the label field): one line more, the same statement
            deep = "  ! free form: this comment starts in column 3\n" + "".join("      " + l + "\n" for _, l in lay["phys"])
            jobs.append(dict(name="deep", src=deep, std=std, ic=True))
    elif prop == "C08" and b.get("fam") in ("streams", "streams-unit-end"):
        head, end = WRAP_TEXT[b.get("wrap", "prog")]
        body = "\n".join("  " + (end if a == "endu" else STREAM_TEXT[a]) for a in b["stream"])
        jobs = [dict(name="E", src=head + "\n" + body + "\n" + end + "\n", std=std, ic=True)]
        meta = {"valid": b["valid"]}
    elif prop == "C08":
        others = [e for e in ed if e["t"] in ("cmt", "cpp")]
        lay = perturb.layout(b["edited"], others)
        lines = [l for _, l in lay["phys"]]
        skip = False
        for e in ed:
            if e["t"] == "par":
                k = lay["last_line"][e["pos"]] - 1
                new = par_edit(lines[k], e["a"], e["b"])
                if new is None:
                    skip = True
                else:
                    lines[k] = new
        esrc = "\n".join(lines) + "\n"
        jobs = [dict(name="E", src=esrc, std=std, ic=not others)]
        meta = {"valid": b["valid"] or skip}
        if not meta["valid"] and (any(e["t"] == "ren" for e in ed) or b["id"] % 16 == 0):
            # the same text once more in the same process (and under the other standard): refused the first time, refused again
            jobs.append(dict(name="E2", src=esrc, std="f2003", ic=not others))
            jobs.append(dict(name="E3", src=esrc, std=std, ic=not others))
    elif prop == "C15":
        hidden = {e["pos"] for e in ed if e["t"] == "sent"}
        minus = [s for i, s in enumerate(stmts, 1) if i not in hidden]
        cm = [e for e in ed if e["t"] == "cmt"]
        plain = perturb.text_of(perturb.layout(out, cm)) if cm else base_src
        jobs = [dict(name="P", src=plain, std=std, ic=True),
                dict(name="Pminus", src=render.free_text(minus), std=std, ic=True),
                dict(name="on", src=src, std=std, ic=True, omp=True),
                dict(name="off", src=src, std=std, ic=True),
                dict(name="onfile", src=src, std=std, ic=True, omp=True, reader="file"),       # the same through FortranFileReader
                dict(name="onkeep", src=src, std=std, ic=False, omp=True, want=["leaves"]),
                dict(name="Pkeep", src=plain, std=std, ic=False, want=["leaves"])]
        if b["id"] % 3 == 0 and src[:1] not in " #!":
            # a history inside one reader: it is told 'fixed form, not strict', the first line (a unit header) starts in column 5 and makes it switch
            # to free form by itself, and the conditional lines come after that switch
            jobs.append(dict(name="onswitch", src="".join("    " + l + "\n" for l in src.split("\n")[:-1]), std=std, ic=True, omp=True, fmt=(False, False)))
        # the same in fixed form: sentinel !$ / c$ / *$ in columns 1-2 (continuation: sentinel, three blanks, mark in column 6)
        from .sourceform import fixed_render
        sty = ["!$", "c$", "*$", "C$"][b["id"] % 4]
        fplain = fixed_render(stmts, 72, "&", "C", 0).split("\n")
        fminus = fixed_render(minus, 72, "&", "C", 0)
        flines = []
        k = 0
        per_stmt = fixed_lines_per_stmt(stmts)
        for i, ls in enumerate(per_stmt, 1):
            for ln in ls:
                if i in hidden and not ln.startswith(("C", "c", "*", "!")):
                    lab = ln[:5].strip()
                    # the label of a conditional line goes into columns 3-5
                    flines.append(sty + ((lab.ljust(3) if (b["id"] + i) % 2 else lab.rjust(3)) if lab else "   ") + ln[5:])
                else:
                    flines.append(ln)
        fsrc = "\n".join(flines) + "\n"
        fp_src = "\n".join(l for ls in per_stmt for l in ls) + "\n"
        for strict in (False, True):
            tag = "x" if strict else "f"
            jobs += [dict(name=tag + "P", src=fp_src, std=std, ic=True, fmt=(False, strict)),
                     dict(name=tag + "Pminus", src=fminus, std=std, ic=True, fmt=(False, strict)),
                     dict(name=tag + "on", src=fsrc, std=std, ic=True, omp=True, fmt=(False, strict)),
                     dict(name=tag + "off", src=fsrc, std=std, ic=True, fmt=(False, strict))]
    elif prop == "C13":
        lay = perturb.layout(out, [])
        per = {}
        for i, l in lay["phys"]:
            per.setdefault(i, []).append(l)
        incs = [(e["pos"], e["a"]) for e in ed if e["t"] == "inc"]
        style = b["id"] % perturb.INC_STYLES
        main, files = perturb.split_includes(per, stmts, incs, style=style)
        nested_names = files.pop("__nested__")
        msrc = "\n".join(main) + "\n"
        decoy = {fn: "  this is not fortran @@\n" for fn in files}
        jobs = [dict(name="P", src=base_src, std=std, ic=True, want=["leaves"]),
                dict(name="str", src=msrc, std=std, ic=True, files={"d1": files}, reader="string"),
                dict(name="file", src=msrc, std=std, ic=True, files={"d1": files}, reader="file"),
                dict(name="order", src=msrc, std=std, ic=True, files={"d1": files, "d2": decoy}, dirs=["d1", "d2"], reader="string"),
                dict(name="absent", src=msrc, std=std, ic=True, files={"d1": {}}, reader="string", want=["leaves", "textfull"])]
        if perturb.inc_name(1, style)[2] is None:
            jobs.pop()
        # the same file included twice (legal): equals the program with those statements repeated
        simple = [ab for ab in incs if all(out[i - 1]["k"] == "s" and out[i - 1]["l"] == 0 for i in range(ab[0], ab[1] + 1))
                  and not any(o != ab and o[0] <= ab[0] and ab[1] <= o[1] for o in incs) and not any(o != ab and ab[0] <= o[0] and o[1] <= ab[1] for o in incs)]
        if simple:
            a_, b_ = simple[0]
            line = "  " + perturb.inc_name(sorted(incs, key=lambda ab: (ab[0], -ab[1])).index((a_, b_)) + 1, style)[1]
            k_ = main.index(line)
            main2 = main[:k_ + 1] + [line] + main[k_ + 1:]
            twice_stmts = stmts[:b_] + stmts[a_ - 1:b_] + stmts[b_:]
            jobs.append(dict(name="Ptwice", src=render.free_text(twice_stmts), std=std, ic=True))
            jobs.append(dict(name="twice", src="\n".join(main2) + "\n", std=std, ic=True, files={"d1": files}, reader="string"))
        # comments kept: a comment line in front of some statements (so that comments travel into the include files), free form
        # and - for a third of the cases - fixed form (the nested reader has to inherit form and comment mode)
        if b["id"] % 2 == 0:
            perk = {i: (["  ! note %d" % i] if (i + b["id"]) % 3 == 0 else []) + ls for i, ls in per.items()}
            maink, filesk = perturb.split_includes(perk, stmts, incs, style=style)
            filesk.pop("__nested__")
            jobs.append(dict(name="Pk", src="\n".join(l for i in sorted(perk) for l in perk[i]) + "\n", std=std, ic=False, want=["leaves"]))
            jobs.append(dict(name="strk", src="\n".join(maink) + "\n", std=std, ic=False, files={"d1": filesk}, reader="string", want=["leaves"]))
            jobs.append(dict(name="filek", src="\n".join(maink) + "\n", std=std, ic=False, files={"d1": filesk}, reader="file", want=["leaves"]))
        if b["id"] % 3 == 0 and style in (0, 1, 5):
            fper = {i + 1: (["C     note %d" % (i + 1)] if (i + 1 + b["id"]) % 3 == 0 else []) + ls for i, ls in enumerate(fixed_lines_per_stmt(stmts))}
            if all(len(l) <= 72 for ls in fper.values() for l in ls):
                mainf, filesf = perturb.split_includes(fper, stmts, incs, style=style, lead="      ")
                filesf.pop("__nested__")
                jobs.append(dict(name="Pf", src="\n".join(l for i in sorted(fper) for l in fper[i]) + "\n", std=std, ic=False, fmt=(False, False), want=["leaves"]))
                jobs.append(dict(name="strf", src="\n".join(mainf) + "\n", std=std, ic=False, fmt=(False, False), files={"d1": filesf}, reader="string", want=["leaves"]))
        if nested_names:
            # the first matching directory in include-path order wins, also for an INCLUDE inside an included file:
            # the nested files live in d1, the files that include them in d2 next to decoys of the nested ones
            d1 = {fn: files[fn] for fn in nested_names}
            d2 = {fn: (files[fn] if fn not in nested_names else decoy[fn]) for fn in files}
            jobs.insert(4, dict(name="split", src=msrc, std=std, ic=True, files={"d1": d1, "d2": d2}, dirs=["d1", "d2"], reader="file"))
        # the absent case is only meaningful when the cut is at one nesting level and leaves valid source
        meta = {"incs": incs, "files": files, "main": msrc, "inc_style": style,
                "nested": any(o != ab and o[0] <= ab[0] and ab[1] <= o[1] for o in incs for ab in incs)}
    return {"id": b["id"], "jobs": jobs, "meta": meta, "fam": b["fam"], "out": out, "ed": ed, "beh_extra": {k: b[k] for k in ("leaves", "valid", "stream") if k in b}}


WRAP_TEXT = {"prog": ("program u1", "end program u1"), "sub": ("subroutine u1", "end subroutine u1"), "fun": ("function u1()", "end function u1")}
STREAM_TEXT = {"s": "x = 1", "s10": "10 x = 1", "if": "if (x > 0) then", "ifn": "c1: if (x > 0) then", "else": "else", "endif": "end if", "endifn": "end if c1",
               "do": "do i = 1, n", "enddo": "end do", "dol10": "do 10 i = 1, n", "dol20": "do 20 j = 1, n", "cont10": "10 continue", "cont20": "20 continue",
               "enddo10": "10 end do", "blk": "block", "endblk": "end block", "sel": "select case (i)", "case": "case (1)", "endsel": "end select"}


def fixed_lines_per_stmt(stmts):
    """Fixed-form physical lines per statement (wrap 72, no comment lines)."""
    from .sourceform import fixed_render
    out = []
    for s_ in stmts:
        txt = fixed_render([dict(s_, d=min(s_["d"], 2))], 72, "&", "C", 1)
        out.append([l for l in txt.split("\n") if l and not l.startswith(("C ", "c", "*"))])
    return out


def par_edit(line, a, b):
    """Delete (b = 1) the a-th parenthesis, or insert an opening (2) / closing (3) one at the a-th eighth (every token boundary of a
    statement of up to eight tokens), outside literals and comments."""
    toks = perturb.layout_tokens(line.strip())
    ind = line[:len(line) - len(line.lstrip())]
    # stop at a trailing comment
    for i, (t, sp) in enumerate(toks):
        if t == "!":
            toks = toks[:i]
            break
    if b == 1:
        idx = [i for i, (t, sp) in enumerate(toks) if t in ("(", ")", "(/", "/)")]
        if not idx:
            return None
        i = idx[(a - 1) % len(idx)]
        t, sp = toks[i]
        toks[i] = (t.replace("(", "").replace(")", ""), sp)
        if toks[i][0] == "":
            del toks[i]
    else:
        if not toks:
            return None
        i = min(len(toks), max(1, (len(toks) * a + 7) // 8))
        toks.insert(i, ("(" if b == 2 else ")", ""))
    return ind + perturb.join_tokens(toks)


def parse_ev(ev, D, ctr, src_digest, cfg, r):
    o = r["o"]
    ctr[0] += 1
    t = ctr[0] if o["res"] == "ok" else 0
    ev.append({"e": "parse", "src": D(src_digest), "cfg": cfg, "res": o["res"], "tree": t, "st": D(r.get("st")), "sci": D(r.get("sci")),
               "line": o.get("line", 0), "q": D((o.get("quoted") or "").strip() if o["res"] == "fse" else None)})
    return t


def cfgid(job):
    return session.cfg_id(job["std"], job.get("ic", True), job.get("pd", False), job.get("omp", False),
                          str(job.get("fmt", "")) + job.get("reader", "") + "/".join(job.get("dirs", [])) + ("+files:" + job["name"] if job.get("files") is not None else ""))


def events_for(prop, case, res, D, ctr):
    ev = [{"e": "begin", "t": case["tid"]}]
    J = {j["name"]: j for j in case["jobs"]}
    R = res["jobs"]
    T = {}
    for name, job in J.items():
        T[name] = parse_ev(ev, D, ctr, R[name]["src"], cfgid(job), R[name])

    expected_obs = case.setdefault("obs_expected", {})

    def claim(law, name, **kw):
        d = {"e": "claim", "law": law, "src": D(R[name]["src"]), "cfg": cfgid(J[name])}
        d.update(kw)
        if law == "obseq" and "val" in kw:
            expected_obs[(name, kw["key"])] = D.text(kw["val"]) if hasattr(D, "text") else None
        ev.append(d)

    seen_obs = case.setdefault("obs_seen", {})

    def obs_ev(name, key, val):
        seen_obs[(name, key)] = val
        if T[name]:
            ev.append({"e": "obs", "tree": T[name], "key": key, "val": D(val)})

    def ref(name):
        return {"src2": D(R[name]["src"]), "cfg2": cfgid(J[name])}
    if prop in ("C11", "C14"):
        beh_leaves = case["beh_extra"]["leaves"]
        pst = [x for x in (R["P"].get("leaves") or []) if x[0] == "s"]
        exp_keep, exp_dirs = [], []
        ok = True
        for kind, idx in beh_leaves:
            if kind == "s":
                if idx - 1 >= len(pst):
                    ok = False
                    break
                exp_keep.append(tuple(pst[idx - 1]))
                exp_dirs.append(tuple(pst[idx - 1]))
            else:
                e = case["ed"][idx - 1]
                if e["t"] == "join":
                    # the trailing comment behind two statements joined by ';'
                    txt = perturb.CMT[e["a"]]
                    exp_keep.append(("c", txt))
                    exp_dirs.append(("cd" if e["a"] in (6, 7) else "c", txt))
                elif e["t"] == "cmt":
                    txt = perturb.CMT[e["b"]]
                    exp_keep.append(("c", txt))
                    # a full-line directive-form comment becomes a Directive; the code deliberately keeps
                    # trailing ones as Comment (but not on every path) and the property allows either
                    isdir = e["b"] in (6, 7)
                    exp_dirs.append((("d" if e["a"] in (1, 3) else "cd") if isdir else "c", txt))
                    if e["a"] == 5 and not any(x["t"] == "cmt" and x["a"] == 2 and x["pos"] == e["pos"] for x in case["ed"]):
                        # place 5 comes with a second trailing comment on the continuation line
                        exp_keep.append(("c", perturb.AFTER_BREAK))
                        exp_dirs.append(("c", perturb.AFTER_BREAK))
                else:
                    for f_ in [e["a"]] + ([e["b"]] if e.get("b") else []):
                        p = ("p", perturb.cpp_norm("\n".join(perturb.CPP[f_])))
                        exp_keep.append(p)
                        exp_dirs.append(p)

        def real(name, exp=None):
            lv = R[name].get("leaves")
            if lv is None:
                return None
            lv = [(k, perturb.cpp_norm(t)) if k == "p" else (k, t) for k, t in lv]
            if exp is not None and len(exp) == len(lv):
                lv = [("cd", t) if x[0] == "cd" and k in ("c", "d") else (k, t) for (k, t), x in zip(lv, exp)]
            return repr(lv)
        if not ok:
            claim("accept", "P")
        claim("accept", "P")
        if prop == "C11":
            obs_ev("keep", "leaves", real("keep"))
            claim("obseq", "keep", key="leaves", val=D(repr(exp_keep)))
            claim("sametree", "P", ci=False, **ref("ignore"))
            obs_ev("dirs", "leaves", real("dirs", exp_dirs))
            claim("obseq", "dirs", key="leaves", val=D(repr(exp_dirs)))
            # every comment exactly once in the regenerated text
            txt = R["keep"].get("textfull")
            if txt is not None:
                lines = [l.strip() for l in txt.split("\n")]
                want = sorted(t for k, t in exp_keep if k == "c")
                got = sorted(l for l in lines if l.startswith("!"))
                obs_ev("keep", "printed-comments", repr(got))
                claim("obseq", "keep", key="printed-comments", val=D(repr(want)))
        else:
            obs_ev("keep", "leaves", real("keep"))
            claim("obseq", "keep", key="leaves", val=D(repr(exp_keep)))
            obs_ev("keep", "nocpp", R["keep"].get("st_nocpp"))
            # with comments kept the stripped tree still holds the comments: compare against the ignore run for the statements
            exp_ign = [x for x in exp_keep if x[0] != "c"]
            obs_ev("ignore", "leaves", real("ignore"))
            claim("obseq", "ignore", key="leaves", val=D(repr(exp_ign)))
            obs_ev("ignore", "nocpp", R["ignore"].get("st_nocpp"))
            claim("obssame", "ignore", key="nocpp", **ref("P"))
            if "fix" in J:
                obs_ev("fix", "leaves", real("fix"))
                claim("obseq", "fix", key="leaves", val=D(repr(exp_ign)))
                obs_ev("fix", "nocpp", R["fix"].get("st_nocpp"))
                claim("obssame", "fix", key="nocpp", **ref("P"))
            txt = R["keep"].get("textfull")
            if txt is not None:
                got = [perturb.cpp_norm(l) for l in txt.split("\n") if l.strip().startswith("#")]
                obs_ev("keep", "printed-cpp", repr(got))
                claim("obseq", "keep", key="printed-cpp", val=D(repr([t for k, t in exp_keep if k == "p"])))
    elif prop == "C07":
        for name in ("keep", "ignore"):
            claim("fseat", name, line=case["meta"]["line"], q=D(case["meta"]["quoted"].strip()))
        if "deep" in J:
            claim("fseat", "deep", line=case["meta"]["line"] + 1, q=D(case["meta"]["quoted"].strip()))
    elif prop == "C08":
        if not case["meta"]["valid"]:
            claim("reject", "E")
            for name in ("E2", "E3"):
                if name in J:
                    claim("reject", name)
    elif prop == "C15":
        claim("accept", "P")
        claim("accept", "Pminus")
        claim("sametree", "P", ci=False, **ref("on"))
        claim("sametree", "Pminus", ci=False, **ref("off"))
        claim("sametree", "P", ci=False, **ref("onfile"))
        if "onswitch" in J:
            claim("sametree", "P", ci=False, **ref("onswitch"))
        for name in ("onkeep", "Pkeep"):
            lv = R[name].get("leaves")
            if lv is not None:
                # the comment line the renderer puts between continued conditional lines is not part of P
                lv = [x for x in lv if tuple(x) not in (("c", "! comment between conditional lines"), ("c", "! trailing note"))]
                R[name]["leaves"] = lv
            obs_ev(name, "leaves", repr(lv) if lv is not None else None)
        if R["Pkeep"].get("leaves") is not None:
            claim("obseq", "onkeep", key="leaves", val=D(repr(R["Pkeep"]["leaves"])))
        for tag in ("f", "x"):
            # the property is conditional on the plain fixed-form text being accepted in that mode (strict F77 mode refuses much)
            if R[tag + "P"]["o"]["res"] == "ok" and R[tag + "Pminus"]["o"]["res"] == "ok":
                claim("sametree", tag + "P", ci=False, **ref(tag + "on"))
                claim("sametree", tag + "Pminus", ci=False, **ref(tag + "off"))
    elif prop == "C13":
        claim("accept", "P")
        for name in ("str", "file", "order", "split"):
            if name in J:
                claim("sametree", "P", ci=False, **ref(name))
        if "twice" in J:
            claim("sametree", "Ptwice", ci=False, **ref("twice"))
        for pn, names in (("Pk", ("strk", "filek")), ("Pf", ("strf",))):
            if pn in J and R[pn]["o"]["res"] == "ok":
                for name in names:
                    claim("sametree", pn, ci=False, **ref(name))
        if not case["meta"]["nested"]:
            # unresolved includes are kept as Include_Stmt nodes exactly where the lines were
            pst = [x for x in (R["P"].get("leaves") or []) if x[0] == "s"]
            incs = sorted(case["meta"]["incs"])
            exp = []
            i = 1
            k = 0
            while i <= len(pst):
                r_ = next((ab for ab in incs if ab[0] == i), None)
                if r_:
                    k += 1
                    exp.append(("s", perturb.inc_name(incs.index(r_) + 1, case["meta"].get("inc_style", 0))[2]))
                    i = r_[1] + 1
                else:
                    exp.append(tuple(pst[i - 1]))
                    i += 1
            case["meta"]["exp_absent"] = exp
            _o = R["absent"]["o"] if "absent" in R else {}
            # (what is left when the files are absent need not be valid - an INCLUDE range may cut through units - and an END name that
            # then meets the wrong opening statement leaves through reader.error(): that is C06's known finding KF-C06-1, not an INCLUDE matter)
            if "absent" in R and _o["res"] not in ("ok", "fse") and not (_o.get("type") == "SystemExit" and str(_o.get("site", "")).endswith("FortranReaderBase.error")):
                claim("clean", "absent")            # anything but a tree or a syntax error: the unresolved INCLUDE line was not "kept"
            if "absent" in R and R["absent"]["o"]["res"] == "ok":
                # "provided the source is valid with it in place": only claimed when the parser accepts
                obs_ev("absent", "leaves", repr([tuple(x) for x in R["absent"]["leaves"]]))
                claim("obseq", "absent", key="leaves", val=D(repr(exp)))
    return ev


def signature(prop, case, res, clause):
    sig = {}
    if prop == "C14":
        forms = sorted({e["a"] for e in case["ed"] if e["t"] == "cpp"} | {e["b"] for e in case["ed"] if e["t"] == "cpp" and e.get("b")})
        sig["has_angle_include"] = 18 in forms
        # known finding KF-C14-1 is exactly: '#include <sys.h>' comes back as '#include "sys.h"' - and nothing else differs
        only = 18 in forms
        for key, want in case.get("obs_expected", {}).items():
            got = case.get("obs_seen", {}).get(key)
            if want is None or got is None or got == want:
                continue
            if got != want.replace("#include <sys.h>", '#include "sys.h"'):
                only = False
        sig["only_the_include_delimiters_differ"] = only
        # known finding KF-C14-2: a directive between two component definitions splits the Component_Part node - and nothing else differs
        if clause == "tree-differs" and res:
            pst = res["jobs"].get("P", {}).get("st")
            runs = [r_ for n_, r_ in res["jobs"].items() if n_ in ("ignore", "fix") and r_.get("st_nocpp") is not None]
            sig["only_a_component_part_is_split"] = bool(runs) and all(r_["st_nocpp"] == pst or r_.get("st_nocpp_merged") == pst for r_ in runs) \
                and any(r_["st_nocpp"] != pst for r_ in runs)
    if prop == "C13":
        files = case["meta"].get("files", {})
        first = []
        for fn, txt in files.items():
            l0 = txt.strip().split("\n")[0].strip() if txt.strip() else ""
            first.append(l0[:1].isdigit())
        sig["an_include_file_starts_with_a_label"] = any(first)
    if prop == "C08":
        o = res["jobs"]["E"]["o"] if res else {}
        sig["edit"] = case["ed"][0]["t"] if case["ed"] else ""
        # known finding KF-C08-2: a surplus parenthesis directly behind the intrinsic operator of an OPERATOR( ) generic spec
        for e in case["ed"]:
            if e["t"] == "par" and e["b"] in (2, 3) and e["pos"] <= len(case["out"]):
                st = render.stmts_of(case["out"])[e["pos"] - 1]
                new = par_edit(render.stmt_line(st, indent=False), e["a"], e["b"])
                import re as _re
                if new and _re.search(r"operator\s*\(\s*(\*\*|//|==|/=|<=|>=|[-+*/<>]|\.[a-z]+\.)\s*[()]\s*\)", new, _re.I):
                    sig["surplus_parenthesis_behind_the_operator_of_a_generic_spec"] = True
        if case.get("fam") in ("streams", "streams-unit-end"):
            # known finding KF-C08-3: a statement inside a nested DO carries the label of an enclosing labelled DO (and that label comes
            # again to close the outer loop) - matched only if the stream without that statement is well nested
            st_ = case["beh_extra"].get("stream", []) if "stream" in case.get("beh_extra", {}) else []
            stack = []
            for pos_, it in enumerate(st_):
                lab_ = it[-2:] if it[-2:].isdigit() else ""
                if lab_ and not it.startswith("dol") and any(x == "dol" + lab_ for x in stack[:-1]) and stack and stack[-1] != "dol" + lab_ \
                        and stack[-1].startswith(("dol", "do")):
                    rest = st_[:pos_] + st_[pos_ + 1:]
                    sig["labelled_stmt_in_a_nested_do_carries_the_label_of_an_enclosing_do"] = _stream_well_nested(rest)
                    break
                if it == "do" or it.startswith("dol") or it in ("if", "ifn", "blk", "sel"):
                    stack.append(it)
                elif it in ("enddo", "endif", "endifn", "endblk", "endsel") and stack:
                    stack.pop()
                elif lab_ and it.startswith(("cont", "s", "enddo")):
                    while stack and stack[-1] == "dol" + lab_:
                        stack.pop()
        if case.get("fam") == "streams":
            # known finding KF-C08-1: an unlabelled DO closed by an END DO that carries the label of an enclosing labelled DO
            stack = []
            for it in case["beh_extra"].get("stream", []) if "stream" in case.get("beh_extra", {}) else []:
                if it in ("do",) or it.startswith("dol"):
                    stack.append(it)
                elif it.startswith("enddo") and it != "enddo":
                    lab = it[5:]
                    if stack and stack[-1] == "do" and ("dol" + lab) in stack[:-1]:
                        sig["unlabelled_do_closed_by_end_do_with_the_label_of_an_enclosing_do"] = True
                    if stack:
                        stack.pop()
                elif it == "enddo" or it.startswith("cont"):
                    if stack:
                        stack.pop()
    return sig


def _stream_well_nested(items):
    """A small recogniser for the stream alphabet (used only to show that a known finding is the ONLY thing wrong with a stream):
    openers / ENDs match, a labelled terminator closes every open DO with its label and only when that DO is on top, labels of
    statements are unique unless they terminate."""
    stack, used = [], set()
    for it in items:
        lab = it[-2:] if it[-2:].isdigit() else ""
        if it in ("if", "ifn", "blk", "sel", "do") or it.startswith("dol"):
            stack.append(it)
        elif it in ("else", "case"):
            if not stack or stack[-1] not in {"else": ("if", "ifn"), "case": ("sel",)}[it]:
                return False
        elif it in ("endif", "endifn", "endblk", "endsel", "enddo"):
            want = {"endif": "if", "endifn": "ifn", "endblk": "blk", "endsel": "sel", "enddo": "do"}[it]
            if not stack or stack[-1] != want:
                return False
            stack.pop()
        elif lab:
            if lab in used:
                return False
            used.add(lab)
            if any(x == "dol" + lab for x in stack):
                if stack[-1] != "dol" + lab:
                    return False
                while stack and stack[-1] == "dol" + lab:
                    stack.pop()
            elif it.startswith("enddo"):
                return False
        elif it == "endu":
            return False
    return not stack


def run(prop, tier=None, replay=None):
    chk = Check(prop, LEVEL, tier)
    tier = chk.tier
    os.makedirs(os.path.join(common.WORK, "tmp"), exist_ok=True)
    if replay:
        rp = json.load(open(replay))["replay"]
        behs = [rp["beh"]]
    else:
        behs = generate(chk, prop, tier, chk.seed)
    chk.phase("generate")
    cases = []
    for b in behs:
        c = build_case(prop, b)
        c["tid"] = len(cases) + 1
        c["beh"] = b
        cases.append(c)
    results = pmap(obs.run_jobs, [{"id": c["id"], "jobs": c["jobs"]} for c in cases], timeout=CASE_TIMEOUT_S, batch=16)
    chk.phase("observe")
    live = []
    for c, r in zip(cases, results):
        if "__timeout__" in r or "__died__" in r:
            what = "no result within %d s" % CASE_TIMEOUT_S if "__timeout__" in r else "the process died"
            chk.violation({"clause": "no-result", "how": "timeout" if "__timeout__" in r else "died"},
                          "%s: %s for edits %s\n%s" % (prop, what, c["ed"], c["jobs"][-1]["src"][:600]), {"beh": c["beh"], "clause": "no-result"})
        else:
            live.append((c, r))
    cases = [c for c, _ in live]
    results = [r for _, r in live]
    D = session.Digests()
    ctr = [0]
    events = []
    for c, r in zip(cases, results):
        events.extend(events_for(prop, c, r, D, ctr))
        chk.count(len(c["jobs"]))
        chk.distinct(json.dumps([c["out"], c["ed"]], sort_keys=True) if prop != "C08" else r["jobs"]["E"]["src"])
    rej = session.validate(chk, events)
    chk.phase("validate")
    bytid = {c["tid"]: (c, r) for c, r in zip(cases, results)}
    for tid, clause in rej:
        c, r = bytid[tid]
        sig = {"clause": clause}
        sig.update(signature(prop, c, r, clause))
        srcs = "\n".join("--- %s (%s)\n%s" % (j["name"], r["jobs"][j["name"]]["o"], j["src"]) for j in c["jobs"][:3])
        chk.violation(sig, "%s: %s; edits %s\n%s" % (prop, clause, c["ed"], srcs[:900]), {"beh": c["beh"], "clause": clause})
    if prop in ("C11", "C13", "C14") and not replay:
        protocol_traces(chk, prop, cases)
        chk.phase("protocol")
    if prop == "C08":
        nvalid = sum(1 for c in cases if c["meta"]["valid"])
        chk.cov["edits_leaving_a_valid_program_skipped"] = nvalid
        chk.cov["edits_expected_to_be_rejected"] = len(cases) - nvalid
    for c in cases[:: max(1, len(cases) // 3)][:3]:
        chk.sample({"family": c["fam"], "edits": c["ed"], "source": c["jobs"][min(1, len(c["jobs"]) - 1)]["src"][:700]})
    chk.cov["rule"] = ("cases = behaviours of Perturb.tla (a Grammar.tla derivation plus the edits the property quantifies over; exhaustive over a "
                       "reduced alphabet - sampled by stride in the quick tier - plus TLC -simulate over the full catalogue); one evaluation = one parse; "
                       "distinct_nontrivial = distinct (derivation, edit list) pairs that carry at least one edit")
    chk.assumptions = ["the expected leaves / line numbers / validity of an edited stream are computed by TLC from Perturb.tla and Nest.tla",
                       "texts of comments, directives and garbage come from mbt/perturb.py"]
    return chk.finish()


# ------------------------------------------------------------------ protocol traces of the same parses
def _record(case):
    import os, shutil, tempfile
    from .. import probe
    out = []
    for tid, src, kw, files in case["items"]:
        tmp = None
        try:
            rkw = dict(kw)
            if files is not None:
                tmp = tempfile.mkdtemp(prefix="ptr", dir=os.path.join(common.WORK, "tmp"))
                for fn, txt in files.items():
                    os.makedirs(os.path.dirname(os.path.join(tmp, fn)), exist_ok=True)
                    with open(os.path.join(tmp, fn), "w") as f:
                        f.write(txt)
                rkw["include_dirs"] = [tmp]
            out.append(probe.record(tid, src, "f2008", **rkw)[0])
        finally:
            if tmp:
                shutil.rmtree(tmp, ignore_errors=True)
    return out


def protocol_traces(chk, prop, cases):
    """The parses of a sample of the cases are recorded at the protocol level (reader items, BlockBase activations,
    scopes) and validated against TraceParseProto.tla: FinishOk states that every item the reader delivered is a leaf
    of the tree exactly once and in order (conservation of statements, comments, directives, include lines)."""
    from .. import proto
    n = 250 if chk.tier == "quick" else 4000
    step = max(1, len(cases) // n)
    items = []
    srcs = {}
    for c in cases[::step]:
        J = {j["name"]: j for j in c["jobs"]}
        if prop == "C13":
            j = J["str"]
            files = dict(j["files"]["d1"])
            it = (len(items) + 1, j["src"], {"ignore_comments": True}, files)
        else:
            j = J["keep"]
            it = (len(items) + 1, j["src"], {"ignore_comments": False, "process_directives": bool(len(items) % 2)}, None)
        srcs[it[0]] = j["src"]
        items.append(it)
    chunks = [items[i::common.NCPU] for i in range(common.NCPU)]
    out = pmap(_record, [{"id": i, "items": ch} for i, ch in enumerate(chunks) if ch], chunksize=1, timeout=900)
    traces = [t for o in out if isinstance(o, list) for t in o]
    rej = proto.validate(chk, traces)
    for tid, clause in rej:
        if clause in proto.PROPERTY_CLAUSES:
            chk.violation({"clause": "protocol-" + clause}, "%s: protocol trace rejected by TraceParseProto.tla (%s):\n%s" % (prop, clause, srcs.get(tid, "")[:600]),
                          {"src": srcs.get(tid), "clause": clause})
        else:
            chk.note("mechanism-deviation %s in protocol trace %d" % (clause, tid))
    chk.count(len(traces))
