"""C01 fixpoint, C02 tokens, C10 well-formed tree, C17 standards, C18 copies.

All five quantify over the generated valid class (Grammar.tla) and are decided by the laws of
Session.tla on recorded sessions of the real library (DESIGN.md 6)."""
import json, os
from .. import common, programs, session, obs, render, lexer
from ..framework import Check, pmap, MachineryError

LEVEL = {"C01": "exploration", "C02": "exploration", "C10": "model_checking", "C17": "exploration", "C18": "exploration"}
WANT = {
    "C01": ("reparse",),
    "C02": ("toks",),
    "C10": ("wf", "reparse"),
    "C17": ("classes",),
    "C18": ("copy",),
}

COMMENT_TEXTS = ["! plain comment", "! it's", "! say \"hi\"", "!$omp parallel do", "! ends with &", "!dir$ ivdep", "! a ! b"]


def with_comments(p, salt):
    """Deterministically sprinkle full-line and trailing comments and cpp lines (for C18/C10/C01 keep-comment runs)."""
    lines = []
    n = 0
    for i, s in enumerate(p["stmts"]):
        line = render.stmt_line(s)
        hsh = (i * 7 + salt * 13 + len(line)) % 11
        if hsh == 0:
            lines.append(("  " * s["d"]) + COMMENT_TEXTS[(i + salt) % len(COMMENT_TEXTS)])
            n += 1
        if hsh == 1 and s["k"] not in ("format",):
            line += "  " + COMMENT_TEXTS[(i + salt) % 3]
            n += 1
        if hsh == 3 and s["k"] not in ("endu",):
            # an INCLUDE line whose file does not exist is kept as an Include_Stmt node
            lines.append(("  " * s["d"]) + "include 'nofile%d.inc'" % i)
            n += 1
        if hsh == 2:
            lines.append("#ifdef FOO%d" % i)
            lines.append(line)
            lines.append("#endif")
            n += 1
            continue
        if hsh == 4:
            # every form of preprocessor line in turn (define, undef, include, error, warning, line markers, continued lines ...)
            from .. import perturb as _pt
            lines.extend(_pt.CPP[1 + (i + salt) % len(_pt.CPP)])
            n += 1
        lines.append(line)
    return "\n".join(lines) + "\n", n


STRESS_REPL = ["kf(2, 3)", "(n + 1)", "g('a b', \"a b\")", "1.5e-3", "mod(k, 2) + 1",
               # a bracketed constructor holding an operator as the operand of an operator; a signed operand (bounds: 'a(-k:-1)')
               "n + [k - 1, 2]", "-k", "2 * (/k + 1, n/)"]


def stressed_variants(p, limit, per_slot=1):
    """Metamorphic placeholder stress: the statement carrying the non-default catalogue variant is rewritten with ONE
    integer literal or one bracketed simple name replaced by a bracketed / quoted / exponent expression.  Whether the
    result is still valid Fortran is not known - the laws are claimed only if the first parse accepts it (the
    placeholder mechanism must be lossless for whatever the rule classes accept)."""
    from .. import perturb
    out = []
    rich = [i for i, r in enumerate(p["out"]) if r["v"] > 1 and r["k"] in ("s", "decl", "comp", "use", "tbind")]
    for i in rich[:1]:
        st = p["stmts"][i]
        toks = perturb.layout_tokens(st["text"])
        slots = []
        depth = 0
        for j, (t, sp) in enumerate(toks):
            if t in "([":
                depth += 1
            elif t in ")]":
                depth -= 1
            elif t.isdigit() and j > 0 and toks[j - 1][0] not in ("*", "=>") and not (j == 1 and toks[0][0].lower() in ("goto", "go")) \
                    and not (j + 1 < len(toks) and toks[j + 1][0] == "_"):      # not the kind prefix of a character literal
                slots.append(j)
            elif depth > 0 and t.isidentifier() and t.lower() not in ("kind", "len", "unit", "fmt", "file", "stat", "iostat", "err", "end", "status") \
                    and (j + 1 >= len(toks) or toks[j + 1][0] not in ("(", "=", "%")) and toks[j - 1][0] in ("(", ",", "=", ":"):
                slots.append(j)
            elif depth == 0 and j == len(toks) - 1 and j > 1 and t.isidentifier() and toks[j - 1][0] in (",", ")", "+", "-", "*", "/", "**"):
                slots.append(j)       # a trailing operand outside brackets (computed GOTO index, last term of an expression)
        for n_, j in enumerate(slots[:limit]):
            reps = [STRESS_REPL[(n_ * per_slot + m + i + p.get("id", 0)) % len(STRESS_REPL)] for m in range(per_slot)]
            if toks[j - 1][0] == ":" and "-k" not in reps:
                reps.append("-k")          # an upper bound / the end of a section that starts with a sign
            for rep in reps:
                new = list(toks)
                new[j] = (rep, toks[j][1])
                stmts = list(p["stmts"])
                stmts[i] = dict(st, text=perturb.join_tokens(new))
                out.append(render.free_text(stmts))
    return out


UNIT_KINDS = ("prog", "main0", "sub", "fun", "mod", "smod", "bdata")


def joined_last_unit(p, cont=False):
    """The program with all statements of its LAST program unit on one line, separated by ';' (cont: that line continued after
    every ';').  None when a statement of the unit may not follow a ';' in the class (label, labelled DO, FORMAT, main program
    without PROGRAM statement).  -> text, number of top-level units"""
    out, st = p["out"], p["stmts"]
    if len(out) != len(st):
        return None
    depth, starts = 0, []
    for i, r in enumerate(out):
        if r["k"] in UNIT_KINDS:
            if depth == 0:
                starts.append(i)
            depth += 1
        elif r["k"] == "endu":
            depth -= 1
    if not starts or out[starts[-1]]["k"] == "main0":
        return None
    a = starts[-1]
    for i in range(a, len(out)):
        if (i > a and st[i]["label"]) or out[i]["k"] in ("dol", "format") or st[i]["text"].lstrip().startswith(("#", "include", "!")):
            return None
    lines = [render.stmt_line(x) for x in st[:a]]
    parts = [render.stmt_line(x, indent=False) for x in st[a:]]
    lines.append((("; &\n    ") if cont else "; ").join(parts))
    if not render.free_form_evident("\n".join(lines)):
        return None
    return "\n".join(lines) + "\n", len(starts)


def include_twice(p):
    """(main text, files): the first run of unlabelled simple statements of the program goes into an include file that is included
    where it stood and once more directly after (legal: the statements are then executed twice)."""
    st = p["stmts"]
    i = next((k for k, s in enumerate(st) if s["k"] == "s" and not s["label"] and st[k]["text"].split()[0] not in ("return", "stop", "exit", "cycle", "goto", "go")), None)
    if i is None:
        return None
    j = i
    while j + 1 < len(st) and st[j + 1]["k"] == "s" and not st[j + 1]["label"] and st[j + 1]["d"] == st[i]["d"]:
        j += 1
    lines = [render.stmt_line(s) for s in st]
    inc = "  include 'twice.inc'"
    main = lines[:i] + [inc, inc] + lines[j + 1:]
    return "\n".join(main) + "\n", {"twice.inc": "\n".join(lines[i:j + 1]) + "\n"}


def cases_for(prop, progs, tier="thorough"):
    cases = []
    quick = tier == "quick"
    for p in progs:
        stds = ["f2008"] if p["needs08"] else ["f2003", "f2008"]
        if quick and len(stds) == 2 and prop not in ("C17",):
            # quick tier: alternate the standard instead of running both
            stds = [stds[p["id"] % 2]]
        if prop == "C17":
            cfgs = [("f2003", True, False), ("f2008", True, False)]
            cases.append({"id": p["id"], "src": p["src"], "cfgs": cfgs, "want": WANT[prop], "variant": "plain"})
            continue
        if prop == "C02":
            if p.get("reorders"):
                continue
            cfgs = [(s, True, False) for s in stds]
            cases.append({"id": p["id"], "src": p["src"], "cfgs": cfgs, "want": WANT[prop], "variant": "plain"})
            ju = joined_last_unit(p, cont=bool(p["id"] % 2))
            if ju and (ju[1] > 1 or p["id"] % (8 if quick else 2) == 0):
                cases.append({"id": p["id"], "src": ju[0], "cfgs": [(stds[-1], True, False)], "want": WANT[prop], "variant": "last-unit-on-one-line"})
            if p["fam"] == "sweep":
                for src2 in stressed_variants(p, 3 if quick else 12, 3 if quick else len(STRESS_REPL)):
                    cases.append({"id": p["id"], "src": src2, "cfgs": [(stds[-1], True, False)], "want": WANT[prop], "variant": "stress", "conditional": True})
            continue
        if prop in ("C01", "C10"):
            cfgs = [(s, True, False) for s in stds]
            cases.append({"id": p["id"], "src": p["src"], "cfgs": cfgs, "want": WANT[prop], "variant": "plain"})
            ju = joined_last_unit(p, cont=bool(p["id"] % 2))
            if ju and (ju[1] > 1 or p["id"] % (8 if quick else 2) == 0):
                cases.append({"id": p["id"], "src": ju[0], "cfgs": [(stds[-1], True, False)], "want": WANT[prop], "variant": "last-unit-on-one-line"})
            if prop == "C01" and p["fam"] == "sweep":
                # operands replaced by bracketed / signed / quoted expressions: whatever the first parse accepts has to be a fixpoint
                for src2 in stressed_variants(p, 3 if quick else 12, 3 if quick else len(STRESS_REPL)):
                    cases.append({"id": p["id"], "src": src2, "cfgs": [(stds[-1], True, False)], "want": WANT[prop], "variant": "stress", "conditional": True})
            src2, n = with_comments(p, p["id"])
            if n and not (quick and p["id"] % 3):
                cfgs2 = [(stds[-1], False, False)] if quick else [(stds[-1], False, False), (stds[0], False, True)]
                cases.append({"id": p["id"], "src": src2, "cfgs": cfgs2, "want": WANT[prop], "variant": "comments"})
        if prop == "C18":
            src2, n = with_comments(p, p["id"])
            cfgs = [(stds[-1], True, False), (stds[0], False, False), (stds[-1], False, True)]
            if quick:
                cfgs = [cfgs[p["id"] % 3]]
            cases.append({"id": p["id"], "src": src2, "cfgs": cfgs, "want": WANT[prop], "variant": "comments"})
        if prop in ("C18", "C10") and p["id"] % (6 if quick else 2) == 0:
            # the same program read through FortranFileReader; and with a run of simple statements moved to a file INCLUDEd twice
            cfg1 = [(stds[-1], bool(p["id"] % 4), False)]
            cases.append({"id": p["id"], "src": p["src"], "cfgs": cfg1, "want": WANT[prop], "variant": "file-reader", "via": "file"})
            inc = include_twice(p)
            if inc:
                cases.append({"id": p["id"], "src": inc[0], "cfgs": cfg1, "want": WANT[prop], "variant": "include-twice", "via": "include", "files": inc[1]})
    return cases


def _cfgid(cfg):
    return session.cfg_id(*cfg)


def events_for(prop, case, r, D, tree_ctr):
    """Session events + claims for one observed case."""
    ev = [{"e": "begin", "t": case["tid"]}]

    def parse_ev(src_id, cfg, run):
        o = run["o"]
        tree_ctr[0] += 1
        t = tree_ctr[0] if o["res"] == "ok" else 0
        ev.append({"e": "parse", "src": src_id, "cfg": _cfgid(cfg), "res": o["res"], "tree": t,
                   "st": D(run.get("st")), "sci": D(run.get("sci")), "line": o.get("line", 0), "q": D(o.get("quoted"))})
        return t
    s0 = D(r["src"])
    if "toks_src" in r:
        ev.append({"e": "toks", "text": s0, "tk": D(r["toks_src"])})
    for run in r["runs"]:
        cfg = tuple(run["cfg"])
        t = parse_ev(s0, cfg, run)
        if t:
            s1 = D(run["text"])
            ev.append({"e": "print", "tree": t, "text": s1, "tci": D(run["tci"])})
            if "toks_out" in run:
                ev.append({"e": "toks", "text": s1, "tk": D(run["toks_out"])})
            if "re" in run:
                t2 = parse_ev(s1, cfg, run["re"])
                if t2:
                    ev.append({"e": "print", "tree": t2, "text": D(run["re"]["text"]), "tci": D(run["re"]["tci"])})
            for c in run.get("copies", ()):
                ev.append({"e": "copy", "tree": t, "how": c["how"], "ok": c["ok"], "st": D(c["st"]), "text": D(c["text"]),
                           "disjoint": c["disjoint"], "indep": c["indep"], "wf": c["wf"]})
        if prop == "C01":
            if not case.get("conditional") or run["o"]["res"] == "ok":
                ev.append({"e": "claim", "law": "fixpoint", "src": s0, "cfg": _cfgid(cfg)})
        elif prop == "C02":
            if not case.get("conditional") or run["o"]["res"] == "ok":
                ev.append({"e": "claim", "law": "tokens", "src": s0, "cfg": _cfgid(cfg)})
        elif prop == "C10":
            ev.append({"e": "claim", "law": "accept", "src": s0, "cfg": _cfgid(cfg)})
        elif prop == "C18":
            ev.append({"e": "claim", "law": "copy", "src": s0, "cfg": _cfgid(cfg), "how": "deepcopy"})
            ev.append({"e": "claim", "law": "copy", "src": s0, "cfg": _cfgid(cfg), "how": "pickle"})
            ev.append({"e": "claim", "law": "copy", "src": s0, "cfg": _cfgid(cfg), "how": "pickle-fresh"})
    if prop == "C17":
        c3, c8 = _cfgid(("f2003", True, False)), _cfgid(("f2008", True, False))
        if case["needs08"]:
            ev.append({"e": "claim", "law": "reject", "src": s0, "cfg": c3})
            ev.append({"e": "claim", "law": "accept", "src": s0, "cfg": c8})
        else:
            ev.append({"e": "claim", "law": "accept", "src": s0, "cfg": c3})
            ev.append({"e": "claim", "law": "stdmono", "src": s0, "cfg": c3, "cfg2": c8, "exact": case["exact"]})
    return ev


F2008_ONLY_INTRINSICS = None


def f2008_only_intrinsic_names():
    """Names the 2008 parser treats as intrinsics and the 2003 parser does not (from the tree under test;
    used only to decide whether C17 demands exact or case-insensitive equality)."""
    global F2008_ONLY_INTRINSICS
    if F2008_ONLY_INTRINSICS is None:
        from .. import fp
        names = set()
        try:
            from fparser.two.Fortran2008 import Intrinsic_Name as I8  # noqa
        except Exception:  # noqa: BLE001
            I8 = None
        try:
            i3 = set(getattr(fp.Fortran2003.Intrinsic_Name, "function_names", []))
            i8 = set(getattr(I8, "function_names", [])) if I8 else set()
            names = {n.lower() for n in (i8 - i3)}
        except Exception:  # noqa: BLE001
            names = set()
        F2008_ONLY_INTRINSICS = names
    return F2008_ONLY_INTRINSICS


def signature(prop, case, r, clause):
    """Input-shape part of a violation signature (what known_findings.json entries match on)."""
    import re
    sig = {}
    if prop == "C01":
        # a FORMAT item list that leaves out the optional comma after a kP edit descriptor (constraint C1002)
        for st in lexer.split_statements(case["src"]):
            tk = lexer.toks(st)
            if lexer.is_format(tk) and re.search(r"\d\s*p\s*\d*\s*(f|e|en|es|d|g)\s*\d", st, re.I):
                sig["kp_without_comma"] = True
    if prop in ("C02", "C17"):
        # PROCEDURE name-list (without MODULE) in an interface block
        for st in lexer.split_statements(case["src"]):
            tk = [t for _, t in lexer.toks(st)]
            if len(tk) >= 2 and tk[0].lower() == "procedure" and tk[1] not in ("(", "::", ",") and tk[1][:1].isalpha():
                sig["procedure_stmt_without_module"] = True
        if sig.get("procedure_stmt_without_module"):
            # the known findings KF-C02-1 / KF-C17-1 are exactly: MODULE is printed in front of such a statement by the 2003 parser -
            # with that word taken out again the law has to hold
            sig["holds_once_the_invented_MODULE_is_removed"] = _holds_without_invented_module(prop, case)
    return sig


def _strip_invented_module(src, out):
    """Printed text with 'MODULE PROCEDURE names' turned back into 'PROCEDURE names' wherever the source has no MODULE there."""
    bare = set()
    for st in lexer.split_statements(src):
        tk = [t for _, t in lexer.toks(st)]
        if len(tk) >= 2 and tk[0].lower() == "procedure":
            bare.add(tuple(x.lower() for x in tk[1:]))
    lines = []
    for ln in out.split("\n"):
        tk = [t for _, t in lexer.toks(ln.strip())]
        if len(tk) >= 3 and tk[0].lower() == "module" and tk[1].lower() == "procedure" and tuple(x.lower() for x in tk[2:]) in bare:
            ln = ln.replace("MODULE PROCEDURE", "PROCEDURE", 1)
        lines.append(ln)
    return "\n".join(lines)


def _one(case):
    case = dict(case, want=("keeptext",))
    return obs.observe(case)


def _holds_without_invented_module(prop, case):
    r = pmap(_one, [{"id": case["id"], "src": case["src"], "cfgs": [("f2003", True, False), ("f2008", True, False)]}], procs=1)[0]
    t3, t8 = (run.get("text_full") for run in r["runs"])
    if t3 is None or t8 is None:
        return False
    t3 = _strip_invented_module(case["src"], t3)
    if prop == "C17":
        return obs.tci(t3) == obs.tci(t8)
    return lexer.program_tokens(t3) == lexer.program_tokens(case["src"])


def explain(prop, case, r, clause):
    return "%s: %s on program %d (%s, %s):\n%s" % (prop, clause, case["id"], case["fam"], case["variant"], case["src"][:600])


def _xload(paths):
    import subprocess, sys
    lst = paths[0] + ".list"
    with open(lst, "w") as f:
        f.write("\n".join(paths) + "\n")
    try:
        p = subprocess.run([sys.executable, "-m", "mbt.xload", lst], cwd=common.VERIF, capture_output=True, text=True, timeout=1800)
        out = [json.loads(l) for l in p.stdout.splitlines() if l.startswith("{")]
        return {"rc": p.returncode, "out": out, "err": p.stderr[-400:]}
    finally:
        for x in paths + [lst]:
            try:
                os.remove(x)
            except OSError:
                pass


def resolve_fresh_loads(chk, results):
    """Load the pickles written by the observers in processes that never created a parser."""
    pend = [c for r in results for run_ in r["runs"] for c in run_.get("copies", ()) if c.get("pending")]
    if not pend:
        return
    paths = [c["pending"] for c in pend]
    n = max(1, min(common.NCPU, len(paths) // 20 + 1))
    batches = [paths[i::n] for i in range(n)]
    got = {}
    for b, res in zip(batches, pmap(_xload, batches, chunksize=1, procs=n)):
        for o in res["out"]:
            got[o["path"]] = o
        if len(res["out"]) != len(b):
            raise MachineryError("the loader process answered for %d of %d pickles: rc=%s %s" % (len(res["out"]), len(b), res["rc"], res["err"]))
    fresh = 0
    for c in pend:
        o = got[c.pop("pending")]
        if o["parser_created"]:
            raise MachineryError("the loader process had created a parser")
        c.update(ok=o["ok"], st=o["st"], text=o["text"], wf=o["wf"], err=o["err"], wf_problems=o.get("wf_problems"))
        fresh += 1
    chk.cov["pickles_loaded_in_fresh_process"] = fresh


def run(prop, tier=None, replay=None):
    chk = Check(prop, LEVEL[prop], tier)
    tier = chk.tier
    if replay:
        rp = json.load(open(replay))["replay"]
        progs = None
        cases = [rp["case"]]
    else:
        fams = ("exh", "sweep", "sim")
        progs = programs.generate(chk, tier, chk.seed, fams)
        cases = cases_for(prop, progs, tier)
        byid = {p["id"]: p for p in progs}
        for c in cases:
            p = byid[c["id"]]
            c["fam"] = p["fam"]
            c["needs08"] = p["needs08"]
            c["out"] = p["out"]
    names8 = f2008_only_intrinsic_names() if prop == "C17" else set()
    for i, c in enumerate(cases):
        c["tid"] = i + 1
        if prop == "C17":
            idents = {t.lower() for s in lexer.split_statements(c["src"]) for k, t in lexer.toks(s) if k == "name"}
            c["exact"] = not (idents & names8)
    chk.phase("generate")
    results = pmap(obs.observe, cases)
    if prop == "C18":
        resolve_fresh_loads(chk, results)
    chk.phase("observe")
    D = session.Digests()
    tree_ctr = [0]
    events = []
    for c, r in zip(cases, results):
        events.extend(events_for(prop, c, r, D, tree_ctr))
        chk.count(len(r["runs"]))
    rej = session.validate(chk, events)
    chk.phase("validate")
    bytid = {c["tid"]: (c, r) for c, r in zip(cases, results)}
    for tid, clause in rej:
        c, r = bytid[tid]
        sig = {"clause": clause}
        sig.update(signature(prop, c, r, clause))
        chk.violation(sig, explain(prop, c, r, clause), {"case": {k: c[k] for k in c if k not in ("stmts",)}, "clause": clause})
    # C10: the well-formedness predicate is evaluated on the real tree objects by the harness
    # (obs.wf); the trace carries only accept claims, so report its findings here.
    classes = set()
    for c, r in zip(cases, results):
        for run_ in r["runs"]:
            if run_["o"]["res"] == "ok":
                chk.distinct(run_["st"])
            if prop == "C10":
                for where, w in (("parse", run_.get("wf")), ("reparse", run_.get("re", {}).get("wf"))):
                    if w:
                        sig = {"clause": "not-well-formed", "problem": w[0].split(" (")[0][:60]}
                        chk.violation(sig, "C10: %s tree of program %d not well formed: %s\n%s" % (where, c["id"], w[:3], c["src"][:400]),
                                      {"case": {k: c[k] for k in c if k != "stmts"}, "problems": w})
        classes.update(r.get("classes", ()))
    if prop == "C02":
        st = [(c, r) for c, r in zip(cases, results) if c.get("variant") == "stress"]
        chk.cov["stress_variants"] = len(st)
        chk.cov["stress_variants_accepted"] = sum(1 for c, r in st if r["runs"] and r["runs"][0]["o"]["res"] == "ok")
    if prop == "C02" and not replay:
        from . import tokenise
        tokenise.run_part(chk, tier)
        chk.phase("placeholders")
    if classes:
        chk.cov["node_classes_seen"] = len(classes)
    if not replay:
        fam_counts = {}
        for p in progs:
            fam_counts[p["fam"]] = fam_counts.get(p["fam"], 0) + 1
        chk.cov["programs"] = len(progs)
        chk.cov["programs_by_family"] = fam_counts
        chk.cov["exhaustive"] = False
        for p in progs[:: max(1, len(progs) // 3)][:3]:
            chk.sample({"family": p["fam"], "source": p["src"]})
    chk.cov["rule"] = ("programs = behaviours of Grammar.tla (exhaustive reduced alphabet + variant sweep + TLC -simulate); "
                       "one evaluation = one parse configuration (standard x comment mode) of one program with the law of %s "
                       "claimed in the session trace; distinct_nontrivial = number of distinct structure digests "
                       "(repr with BLOCK names renumbered) among the accepted trees" % prop)
    chk.assumptions = ["the valid class is the one defined by Grammar.tla and mbt/catalogue.py",
                       "TLC and the Python twin evaluate the same Session laws; disagreement aborts with exit 2"]
    return chk.finish()
