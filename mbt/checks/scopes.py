"""C16: symbol tables mirror the scoping structure and drive intrinsic resolution.

Scopes.tla generates scope forests with declarations that make intrinsic names local and with
references; TLC computes which references are still intrinsic.  The real parse must build the
same forest of tables and classify every reference accordingly."""
import json
from .. import common, tlc, programs
from ..framework import Check, pmap, MachineryError


# intrinsics that take two arguments get a second one (the reference is still recognised by its first argument x<r>)
TWO_ARGS = {"shiftl", "shiftr", "shifta", "atan2", "mod"}
POS_TEXT = {
    1: "r{r} = {n}(x{r})",
    2: "associate (q{r} => {n}(x{r}))\n{ind}end associate",
    3: "if ({n}(x{r}) > 0) y{r} = 1",
    4: "call ext{r}({n}(x{r}), 2)",
    5: "a{r}(int({n}(x{r}))) = 1",
    6: "print *, 'v', {n}(x{r})",
    7: "do i{r} = 1, int({n}(x{r}))\n{ind}end do",
}


def render(b, common=False, nature=0):
    """common: every USE ... ONLY / rename names one module, spelt with capitals (several USE statements of one module in a scope)."""
    sc, decls, refs = b["sc"], b["decls"], b["refs"]

    def modname(d, lower=False):
        if nature == 2 and d["h"] in ("only", "ren"):
            return "iso_c_binding" if lower else "ISO_C_Binding"
        if common and d["h"] in ("only", "ren"):
            return "ext_mod" if lower else "Ext_Mod"
        return "ext_%s" % d["n"]
    # module nature (R1110): 1 NON_INTRINSIC on every USE of the external modules; 2 the localising USE statements name an
    # intrinsic module and give one of its entities the local name (ONLY with a rename / a rename)
    nat = {0: "", 1: ", non_intrinsic ::", 2: ", intrinsic ::"}[nature]
    n = len(sc)
    kids = {i: [] for i in range(0, n + 1)}
    for i, s in enumerate(sc, 1):
        kids[s["par"]].append(i)
    name = {}
    for i, s in enumerate(sc, 1):
        name[i] = {"mod": "m%d", "prog": "p%d", "sub": "s%d", "csub": "c%d", "blk": "b%d", "ibody": "c%d"}[s["k"]] % i
    for i, s in enumerate(sc, 1):
        if s.get("tw"):
            name[i] = name[s["tw"]]          # a separate module procedure carries the name of its interface body
    twinned = {s["tw"] for s in sc if s.get("tw")}
    lines = []

    def spec_part(i, ind):
        for d in decls:
            if d["s"] != i:
                continue
            if d["h"] == "decl":
                continue
            if d["h"] == "only":
                lines.append(ind + "use%s %s, only: %s" % (nat, modname(d), d["n"] + (" => c_associated" if nature == 2 else "")))
            elif d["h"] == "ren":
                lines.append(ind + "use%s %s, %s => %s" % (nat, modname(d), d["n"], "c_associated" if nature == 2 else "other_name_" + d["n"]))
            else:
                lines.append(ind + "use%s ext_%s" % (nat if nature == 1 else "", d["n"]))
        for d in decls:
            if d["s"] == i and d["h"] == "decl":
                lines.append(ind + "real :: %s" % d["n"])
        lines.append(ind + "integer :: k%d" % i)
        for c in kids[i]:
            if sc[c - 1]["k"] == "ibody":
                pre = "module " if c in twinned else ""
                lines.append(ind + "interface")
                lines.append(ind + "  %ssubroutine %s" % (pre, name[c]))
                spec_part(c, ind + "    ")
                lines.append(ind + "  end subroutine %s" % name[c])
                lines.append(ind + "end interface")

    def exec_part(i, ind):
        for r, ref in enumerate(refs, 1):
            if ref["s"] == i:
                txt = POS_TEXT[ref.get("p", 1)].format(r=r, n=ref["n"], ind=ind)
                if ref["n"] in TWO_ARGS:
                    txt = txt.replace("%s(x%d)" % (ref["n"], r), "%s(x%d, 2)" % (ref["n"], r))
                lines.append(ind + txt)
        for c in kids[i]:
            if sc[c - 1]["k"] == "blk":
                lines.append(ind + "block")
                spec_part(c, ind + "  ")
                exec_part(c, ind + "  ")
                lines.append(ind + "end block")

    def unit(i, ind):
        k = sc[i - 1]["k"]
        word = {"mod": "module", "prog": "program", "sub": "subroutine", "csub": "subroutine"}[k]
        pre = "module " if sc[i - 1].get("tw") else ""
        lines.append(ind + "%s%s %s" % (pre, word, name[i]))
        spec_part(i, ind + "  ")
        if k != "mod":
            exec_part(i, ind + "  ")
        subs = [c for c in kids[i] if sc[c - 1]["k"] == "csub"]
        if subs:
            lines.append(ind + "contains")
            for c in subs:
                unit(c, ind + "  ")
        lines.append(ind + "end %s %s" % (word, name[i]))
    for i in kids[0]:
        unit(i, "")

    def tree(i):
        syms = sorted([d["n"] for d in decls if d["s"] == i and d["h"] == "decl"] + ["k%d" % i])
        mods = sorted({modname(d, lower=True) for d in decls if d["s"] == i and d["h"] != "decl"})
        nm = name[i] if sc[i - 1]["k"] != "blk" else "block:#"
        return [nm, syms, mods, [tree(c) for c in kids[i]]]
    return "\n".join(lines) + "\n", normtree([tree(i) for i in kids[0]])


def work(case):
    from .. import fp
    from ..fp import walk
    P = fp.create("f2008")
    o, t = fp.parse(P, case["src"])
    r = {"id": case["id"], "o": o}
    if t is not None:
        r["tables"] = fp.tables()
        r["scope"] = fp.scope()
        kinds = {}
        import re
        pat = re.compile(r"[A-Za-z][A-Za-z0-9_]*\(x(\d+)(?:, 2)?\)\Z")
        for n in walk(t):
            if type(n).__name__.endswith("_List"):
                continue
            m = pat.match(str(n))
            if m:
                kinds.setdefault(int(m.group(1)), type(n).__name__)
        r["kinds"] = kinds
    return r


def canon(b):
    return json.dumps([b["sc"], sorted(map(json.dumps, b["decls"])), sorted(map(json.dumps, b["refs"]))])


def normtree(t):
    """children in a canonical order (the order of tables among siblings is not part of the property)"""
    return sorted(([x[0], x[1], x[2], normtree(x[3])] for x in t), key=json.dumps)


def run(prop, tier=None, replay=None):
    chk = Check("C16", "model_checking", tier)
    tier = chk.tier
    if replay:
        behs = [json.load(open(replay))["replay"]["beh"]]
    else:
        behs = []
        # Scopes_f08: names that are intrinsic from Fortran 2008 on (the check parses with std=f2008)
        for cfg in (("Scopes_quick.cfg" if tier == "quick" else "Scopes_thorough.cfg"), "Scopes_pos.cfg", "Scopes_f08.cfg"):
            r = tlc.run("MCScopes.tla", cfg, timeout=20000)
            if not r.ok():
                raise MachineryError("TLC failed on %s: %s %s" % (cfg, r.invariant_violated, r.error))
            chk.add_tlc(r)
            behs.extend(r.beh)
        r = tlc.run("MCScopes.tla", "Scopes_sim.cfg", workers=8, simulate=dict(num=40 if tier == "quick" else 2500, depth=40), seed=chk.seed + 5, timeout=6000)
        if not r.ok():
            raise MachineryError("TLC failed on Scopes_sim.cfg: %s %s" % (r.invariant_violated, r.error))
        chk.add_tlc(r)
        behs.extend(r.beh)
        seen = set()
        uniq = []
        for b in behs:
            k = canon(b)
            if k not in seen:
                seen.add(k)
                uniq.append(b)
        behs = uniq
    chk.phase("generate")
    cases = []
    for i, b in enumerate(behs):
        if "common" not in b:
            b["common"] = bool(i % 2)
        if "nature" not in b:
            b["nature"] = (i // 2) % 3
        src, tree = render(b, common=b["common"], nature=b["nature"])
        cases.append({"id": i, "src": src, "tree": tree, "beh": b})
    res = pmap(work, [{"id": c["id"], "src": c["src"]} for c in cases], timeout=120, batch=16)
    chk.phase("replay")
    for c, r in zip(cases, res):
        chk.count()
        chk.cov["traces_validated_against_impl"] += 1
        chk.distinct(c["id"])
        b = c["beh"]
        if "__timeout__" in r or "__died__" in r or r["o"]["res"] != "ok":
            chk.violation({"clause": "not-accepted"}, "C16: generated program not accepted (%s):\n%s" % (r.get("o"), c["src"]), {"beh": b})
            continue
        if r["scope"] is not None:
            chk.violation({"clause": "scope-left-open"}, "C16: a scoping region is still open after a successful parse:\n%s" % c["src"], {"beh": b})
        got = normtree(r["tables"])
        if json.dumps(got) != json.dumps(c["tree"]):
            chk.violation({"clause": "table-tree-differs"}, "C16: table forest %s, expected %s for\n%s" % (got, c["tree"], c["src"]), {"beh": b})
        for ri, ref in enumerate(b["refs"], 1):
            kind = r["kinds"].get(ri)
            is_intr = kind == "Intrinsic_Function_Reference"
            if is_intr != b["intrinsic"][ri - 1]:
                hows = sorted({d["h"] for d in b["decls"] if d["n"] == ref["n"]})
                chk.violation({"clause": "intrinsic-resolution", "expected_intrinsic": b["intrinsic"][ri - 1], "hows": ",".join(hows), "position": ref.get("p", 1)},
                              "C16: reference r%d = %s(..) is %s but the specification says intrinsic=%s:\n%s" % (ri, ref["n"], kind, b["intrinsic"][ri - 1], c["src"]),
                              {"beh": b})
    for c in cases[:: max(1, len(cases) // 3)][:3]:
        chk.sample({"behaviour": c["beh"], "source": c["src"]})
    chk.cov["exhaustive"] = tier != "quick"
    chk.cov["rule"] = ("cases = behaviours of Scopes.tla (scope forests of up to 3/4 scopes with up to 2 localising declarations and 2 references, exhaustive - quick replays "
                       "1/4 of them - plus TLC -simulate with up to 7 scopes); distinct_nontrivial = distinct behaviours up to order of construction")
    chk.assumptions = ["Shadowed() in Scopes.tla is the statement of host association for the constructs generated"]
    return chk.finish()
