"""C04 free-form layout independence, C12 reader stream, C05 fixed form.

FreeForm.tla / FixedForm.tla: TLC checks that the reference reader inverts every layout the
encoder can produce (RoundTrip, CommentsKept) and exports each layout with its ground truth;
the real reader's items must equal the ground truth (C12), the real parser's tree must equal
that of the canonical rendering (C04/C05), and get/put walks generated from ReaderAPI.tla leave
the stream unchanged (C12)."""
import json, os
from .. import common, tlc, layouts, programs, session
from ..framework import Check, pmap, MachineryError


def squeeze(text):
    out = []
    q = None
    for ch in text:
        if q:
            out.append(ch)
            if ch == q:
                q = None
        elif ch in "'\"":
            q = ch
            out.append(ch)
        elif ch != " ":
            out.append(ch)
    return "".join(out)


def read_items(src, form="free", ignore_comments=False, omp=False, fmt=None):
    """Iterate a bare reader: list of (kind, squeezed text, label, name, first, last)."""
    from .. import fp
    rd = fp.reader(src, ignore_comments=ignore_comments, omp=omp, fmt=fmt)
    mode = rd.format.mode
    out = []
    for it in rd:
        cn = type(it).__name__
        if cn == "Comment":
            if it.comment.strip() == "":
                continue
            out.append(("c", squeeze(it.comment), None, None, it.span[0], it.span[1]))
        elif cn == "Line":
            out.append(("s", squeeze(it.line), it.label, it.name, it.span[0], it.span[1]))
        else:
            out.append((cn, squeeze(str(getattr(it, "line", ""))), None, None, it.span[0], it.span[1]))
    return mode, out


def work_free(case):
    from .. import fp
    res = []
    for lay in case["layouts"]:
        # the statements are read inside their program context so that the source-form detection sees
        # free form; items and spans of the context lines are dropped / shifted again
        pre = [case["before"]] if case["before"] else []
        src = "\n".join(pre + lay["lines"] + ([case["after"]] if case["after"] else [])) + "\n"
        r = {}
        try:
            mode, items = read_items(src)
            r["mode"] = mode
            sh = len(pre)
            n = len(lay["lines"])
            r["items"] = [(k, t, lb, nm, f - sh, l - sh) for (k, t, lb, nm, f, l) in items if sh < f <= sh + n]
        except BaseException as e:  # noqa: BLE001
            if isinstance(e, KeyboardInterrupt):
                raise
            r["items_err"] = "%s: %s" % (type(e).__name__, str(e)[:100])
        full = "\n".join(([case["before"]] if case["before"] else []) + lay["lines"] + ([case["after"]] if case["after"] else [])) + "\n"
        o, t = fp.parse(fp.create("f2008"), full, ignore_comments=True)
        r["o"] = o
        r["sci"] = fp.struct(t, ci=True) if t is not None else None
        res.append(r)
    return {"id": case["id"], "res": res}


def canonical_struct(case):
    from .. import fp
    o, t = fp.parse(fp.create("f2008"), case["src"], ignore_comments=True)
    return {"o": o, "sci": fp.struct(t, ci=True) if t is not None else None}


def run_free(chk, prop, tier, replay_set=None):
    """statement-level exhaustive layouts from FreeForm.tla"""
    layouts.gen_tla(os.path.join(common.SPECS, "SourceForm_gen.tla"))
    sets = [s for s in layouts.SETS if replay_set is None or s[0] == replay_set]
    mb, mx = (2, 1) if tier == "quick" else (2, 2)
    jobs = []
    for name, stmts, ctx in sets:
        cfg = os.path.join(chk.work, "FreeForm_%s.cfg" % name)
        if tier == "quick" and len(stmts) > 1:
            mb, mx = 1, 2          # a `;` join together with a comment needs two extras
        elif tier == "quick":
            mb, mx = 2, 1
        with open(os.path.join(common.SPECS, "_FreeForm_%s_%s.cfg" % (name, os.path.basename(chk.work))), "w") as f:
            f.write("SPECIFICATION Spec\nCONSTANTS\n  Stmts <- %s\n  MaxBreaks = %d\n  MaxExtras = %d\nINVARIANT RoundTrip\nINVARIANT CommentsKept\nCONSTRAINT Dump\n" % (name, mb, mx))
        jobs.append((name, "_FreeForm_%s_%s.cfg" % (name, os.path.basename(chk.work))))
    results = pmap(_tlc_free, jobs, chunksize=1, procs=4)
    all_cases = []
    for (name, stmts, ctx), (gen, dist, beh, viol, err) in zip(sets, results):
        try:
            os.remove(os.path.join(common.SPECS, "_FreeForm_%s_%s.cfg" % (name, os.path.basename(chk.work))))
        except OSError:
            pass
        if err:
            raise MachineryError("TLC failed on FreeForm %s: %s" % (name, err))
        chk.cov["states"] += dist
        chk.cov["transitions"] += gen
        chk.cov.setdefault("tlc_runs", []).append({"set": name, "distinct": dist, "layouts": len(beh)})
        if viol:
            chk.violation({"clause": "spec-" + viol}, "TLC: %s of FreeForm.tla violated for statement set %s" % (viol, name), {"set": name})
        # quick: replay a deterministic sample
        beh.sort(key=lambda b: json.dumps(b["lines"]))
        cap = 900 if tier == "quick" else 20000        # layouts replayed per statement set (a deterministic, evenly spaced sample of all TLC found)
        if len(beh) > cap:
            chk.cov["layout_sets_sampled"] = chk.cov.get("layout_sets_sampled", 0) + 1
            step = len(beh) / float(cap)
            beh = [beh[int(i * step)] for i in range(cap)]
        lays = [{"lines": ["".join(l) for l in b["lines"]], "spans": b["spans"], "cmts": b["cmts"], "nb": b["nb"]} for b in beh]
        canon = "\n".join(([ctx[0]] if ctx[0] else []) + [((lab + " ") if lab else "") + ((nm + ": ") if nm else "") + text for lab, nm, text in stmts]
                          + ([ctx[1]] if ctx[1] else [])) + "\n"
        for k in range(0, len(lays), 50):
            all_cases.append({"id": len(all_cases), "set": name, "stmts": stmts, "before": ctx[0], "after": ctx[1], "layouts": lays[k:k + 50], "canon": canon})
    return all_cases


def _tlc_free(job):
    name, cfg = job
    try:
        r = tlc.run("MCFreeForm.tla", cfg, workers=4, timeout=6000, name="ff_" + name)
    except tlc.TlcError as e:
        return 0, 0, [], None, str(e)
    return r.generated, r.distinct, r.beh, r.invariant_violated, r.error


def truth_items(stmts, lay, with_comments=True):
    """Expected reader items.  Statements in source order with exact spans; a comment found on the physical
    lines of a logical line (the statements joined by continuation and `;`) is delivered after the last
    statement of that logical line, comments outside any statement where they stand."""
    cm = [(ln, "".join(txt)) for ln, txt in lay["cmts"]]
    sts = [("s", squeeze(text), int(lab) if lab else None, nm or None, f, l) for (lab, nm, text), (f, l) in zip(stmts, lay["spans"])]
    # group statements whose spans touch (they share a physical line through `;`)
    groups = []
    for s in sts:
        if groups and s[4] <= groups[-1][-1][5]:
            groups[-1].append(s)
        else:
            groups.append([s])
    res = []
    ci = 0
    for g in groups:
        lo, hi = g[0][4], max(x[5] for x in g)
        while ci < len(cm) and cm[ci][0] < lo:
            res.append(("c", cm[ci][1], None, None, cm[ci][0], cm[ci][0]))
            ci += 1
        res.extend(g)
        while ci < len(cm) and cm[ci][0] <= hi:
            res.append(("c", cm[ci][1], None, None, cm[ci][0], cm[ci][0]))
            ci += 1
    while ci < len(cm):
        res.append(("c", cm[ci][1], None, None, cm[ci][0], cm[ci][0]))
        ci += 1
    return res


def check_free(chk, prop, cases):
    canon = {}
    for c in cases:
        canon.setdefault(c["set"], c["canon"])
    cres = pmap(canonical_struct, [{"src": v, "id": k} for k, v in sorted(canon.items())], chunksize=1)
    cstruct = {k: r for (k, _), r in zip(sorted(canon.items()), cres)}
    for k, r in cstruct.items():
        if r["o"]["res"] != "ok":
            raise MachineryError("canonical rendering of statement set %s is not accepted: %s" % (k, r["o"]))
    res = pmap(work_free, [{k: c[k] for k in ("id", "before", "after", "layouts")} for c in cases], timeout=600)
    for c, r in zip(cases, res):
        if "__timeout__" in r or "__died__" in r:
            chk.violation({"clause": "no-result"}, "%s: no result for layouts of %s" % (prop, c["set"]), {"set": c["set"]})
            continue
        for lay, x in zip(c["layouts"], r["res"]):
            chk.count()
            chk.cov["traces_validated_against_impl"] += 1
            src = "\n".join(lay["lines"]) + "\n"
            chk.distinct(src)
            if prop == "C12":
                exp = truth_items(c["stmts"], lay)
                got = x.get("items")
                if got is None:
                    chk.violation({"clause": "reader-raised", "set": c["set"]}, "C12: reader raised %s on\n%s" % (x.get("items_err"), src), {"set": c["set"], "lines": lay["lines"]})
                    continue
                got = [tuple(g) for g in got]
                if got != exp:
                    k = next((i for i, (a, b) in enumerate(zip(got, exp)) if a != b), min(len(got), len(exp)))
                    what = "span" if k < len(got) and k < len(exp) and got[k][:4] == exp[k][:4] else "item"
                    if what == "span" and exp[k][0] == "c":
                        what = "span-of-comment"
                    elif what == "span":
                        # does the statement share a physical line with another one (`;`)?
                        others = [e for j, e in enumerate(exp) if j != k and e[0] == "s"]
                        if any(not (e[5] < exp[k][4] or e[4] > exp[k][5]) for e in others):
                            what = "span-of-statement-sharing-a-line"
                    chk.violation({"clause": "items-differ", "what": what, "set": c["set"]},
                                  "C12: reader items differ at %d: got %s expected %s\n%s" % (k, got[k] if k < len(got) else None, exp[k] if k < len(exp) else None, src),
                                  {"set": c["set"], "lines": lay["lines"], "expected": exp, "got": got})
            else:
                if x["o"]["res"] != "ok":
                    chk.violation({"clause": "layout-not-accepted", "set": c["set"]}, "C04: layout not accepted (%s):\n%s" % (x["o"], src), {"set": c["set"], "lines": lay["lines"]})
                elif x["sci"] != cstruct[c["set"]]["sci"]:
                    chk.violation({"clause": "tree-differs", "set": c["set"]}, "C04: tree differs from the canonical layout:\n%s" % src, {"set": c["set"], "lines": lay["lines"]})
    for c in cases[:: max(1, len(cases) // 3)][:3]:
        chk.sample({"statement_set": c["set"], "layout": c["layouts"][len(c["layouts"]) // 2]["lines"]})


# ------------------------------------------------------------------ fixed form (C05)
def fixed_line(lab, text):
    return "%-5s %s" % (lab, text)


def work_fixed(case):
    from .. import fp
    res = []
    for lay in case["layouts"]:
        pre = [fixed_line("", case["before"])] if case["before"] else []
        post = [fixed_line("", case["after"])] if case["after"] else []
        full = "\n".join(pre + lay["lines"] + post) + "\n"
        r = {}
        try:
            rd = fp.reader(full, ignore_comments=True)
            r["mode"] = rd.format.mode
        except BaseException as e:  # noqa: BLE001
            if isinstance(e, KeyboardInterrupt):
                raise
            r["mode"] = "error:" + type(e).__name__
        o, t = fp.parse(fp.create("f2008"), full, ignore_comments=True)
        r["o"] = o
        r["sci"] = fp.struct(t, ci=True) if t is not None else None
        res.append(r)
    return {"id": case["id"], "res": res}


def work_fixed_items(case):
    res = []
    for lay in case["layouts"]:
        pre = [fixed_line("", case["before"])] if case["before"] else []
        post = [fixed_line("", case["after"])] if case["after"] else []
        full = "\n".join(pre + lay["lines"] + post) + "\n"
        r = {}
        try:
            mode, items = read_items(full, fmt=(False, False))
            r["mode"] = mode
            sh, n = len(pre), len(lay["lines"])
            r["items"] = [(k, t, lb, nm, f - sh, l - sh) for (k, t, lb, nm, f, l) in items if sh < f <= sh + n]
        except BaseException as e:  # noqa: BLE001
            if isinstance(e, KeyboardInterrupt):
                raise
            r["items_err"] = "%s: %s" % (type(e).__name__, str(e)[:100])
        res.append(r)
    return {"id": case["id"], "res": res}


def check_fixed_items(chk, cases):
    """C12 in fixed form: the items of the real reader over every FixedForm.tla layout against the ground truth of the layout."""
    res = pmap(work_fixed_items, [{k: c[k] for k in ("id", "before", "after", "layouts")} for c in cases], timeout=600)
    for c, r in zip(cases, res):
        if "__timeout__" in r or "__died__" in r:
            chk.violation({"clause": "no-result", "form": "fixed"}, "C12: no result for fixed-form layouts of %s" % c["set"], {"set": c["set"], "form": "fixed"})
            continue
        for lay, x in zip(c["layouts"], r["res"]):
            chk.count()
            chk.cov["traces_validated_against_impl"] += 1
            src = "\n".join(lay["lines"]) + "\n"
            chk.distinct("fixed:" + src)
            rp = {"set": c["set"], "lines": lay["lines"], "form": "fixed"}
            got = x.get("items")
            if got is None:
                chk.violation({"clause": "reader-raised", "set": c["set"], "form": "fixed"}, "C12: reader raised %s on\n%s" % (x.get("items_err"), src), rp)
                continue
            got = [tuple(g) for g in got]
            exp = [(k, squeeze(t) if k == "c" else t, lb, nm, f, l) for (k, t, lb, nm, f, l) in truth_items(c["stmts"], lay)]
            if x.get("mode") != "fix":
                chk.violation({"clause": "not-read-as-fixed", "set": c["set"]}, "C12: mode %s for fixed-form text\n%s" % (x.get("mode"), src), rp)
            elif got != exp:
                k = next((i for i, (a, b) in enumerate(zip(got, exp)) if a != b), min(len(got), len(exp)))
                what = "span" if k < len(got) and k < len(exp) and got[k][:4] == exp[k][:4] else "item"
                chk.violation({"clause": "items-differ", "what": what, "set": c["set"], "form": "fixed"},
                              "C12: fixed-form reader items differ at %d: got %s expected %s\n%s" % (k, got[k] if k < len(got) else None, exp[k] if k < len(exp) else None, src),
                              dict(rp, expected=exp, got=got))
    for c in cases[:: max(1, len(cases) // 2)][:2]:
        chk.sample({"statement_set": c["set"], "fixed_form_layout": c["layouts"][len(c["layouts"]) // 2]["lines"]})


def run_fixed(chk, tier, replay_set=None, amp_end=False):
    layouts.gen_tla(os.path.join(common.SPECS, "SourceForm_gen.tla"))
    sets = [s for s in layouts.SETS if replay_set is None or s[0] == replay_set]
    cc = "CC2" if tier == "quick" else "CC3"
    tag = os.path.basename(chk.work)            # C05 and C12 may run at the same time: each writes configurations of its own
    jobs = []
    owner = []
    for si, (name, stmts, ctx) in enumerate(sets):
        if tier == "quick":
            # a trailing comment on a continued line and one at the end need two extras: one break with two extras, or two breaks with one
            bounds = [((1, 2) if name[-1] in "13579" else (2, 1)) if len(stmts) == 1 else (2, 1)]
        else:
            # (two breaks together with two extras - and 14 continuation characters - ran out of memory and took hours: the thorough
            # tier runs both quick shapes for every single-statement set, with three continuation characters)
            bounds = [(2, 1), (1, 2)] if len(stmts) == 1 else [(2, 1)]
        for mb, mx in bounds:
            cfg = "_FixedForm_%s_%s_%d%d.cfg" % (name, tag, mb, mx)
            with open(os.path.join(common.SPECS, cfg), "w") as f:
                f.write("SPECIFICATION Spec\nCONSTANTS\n  Stmts <- %s\n  MaxBreaks = %d\n  MaxExtras = %d\n  ContChars <- %s\n  AmpEnd = %s\nINVARIANT RoundTrip\nCONSTRAINT Dump\n" % (name, mb, mx, cc, "TRUE" if amp_end else "FALSE"))
            jobs.append((name + "_%s_%d%d" % (tag, mb, mx), cfg, "MCFixedForm.tla"))
            owner.append(si)
    raw = pmap(_tlc_form, jobs, chunksize=1, procs=4)
    for _, cfg, _ in jobs:
        try:
            os.remove(os.path.join(common.SPECS, cfg))
        except OSError:
            pass
    results = []
    for si in range(len(sets)):
        gen = dist = 0
        beh, viol, err = [], None, None
        for o, (g, d, bh, v, e) in zip(owner, raw):
            if o == si:
                gen, dist, viol, err = gen + g, dist + d, viol or v, err or e
                beh.extend(bh)
        results.append((gen, dist, beh, viol, err))
    cases = []
    for (name, stmts, ctx), (gen, dist, beh, viol, err) in zip(sets, results):
        if err:
            raise MachineryError("TLC failed on FixedForm %s: %s" % (name, err))
        chk.cov["states"] += dist
        chk.cov["transitions"] += gen
        chk.cov.setdefault("tlc_runs", []).append({"set": name, "distinct": dist, "layouts": len(beh)})
        if viol:
            chk.violation({"clause": "spec-" + viol}, "TLC: %s of FixedForm.tla violated for statement set %s" % (viol, name), {"set": name})
        beh.sort(key=lambda b: json.dumps(b["lines"]))
        cap = 900 if tier == "quick" else 20000        # layouts replayed per statement set (a deterministic, evenly spaced sample of all TLC found)
        if len(beh) > cap:
            chk.cov["layout_sets_sampled"] = chk.cov.get("layout_sets_sampled", 0) + 1
            step = len(beh) / float(cap)
            beh = [beh[int(i * step)] for i in range(cap)]
        lays = [{"lines": ["".join(l) for l in b["lines"]], "spans": b["spans"], "cmts": b["cmts"], "nb": b["nb"]} for b in beh]
        canon = "\n".join(([ctx[0]] if ctx[0] else []) + [((lab + " ") if lab else "") + ((nm + ": ") if nm else "") + text for lab, nm, text in stmts]
                          + ([ctx[1]] if ctx[1] else [])) + "\n"
        for k in range(0, len(lays), 50):
            cases.append({"id": len(cases), "set": name, "stmts": stmts, "before": ctx[0], "after": ctx[1], "layouts": lays[k:k + 50], "canon": canon})
    return cases


def _tlc_form(job):
    name, cfg, spec = job
    try:
        r = tlc.run(spec, cfg, workers=4, timeout=6000, name="fx_" + name)
    except tlc.TlcError as e:
        return 0, 0, [], None, str(e)
    return r.generated, r.distinct, r.beh, r.invariant_violated, r.error


def check_fixed(chk, cases):
    canon = {}
    for c in cases:
        canon.setdefault(c["set"], c["canon"])
    cres = pmap(canonical_struct, [{"src": v, "id": k} for k, v in sorted(canon.items())], chunksize=1)
    cstruct = {k: r for (k, _), r in zip(sorted(canon.items()), cres)}
    res = pmap(work_fixed, [{k: c[k] for k in ("id", "before", "after", "layouts")} for c in cases], timeout=600)
    for c, r in zip(cases, res):
        if "__timeout__" in r or "__died__" in r:
            chk.violation({"clause": "no-result"}, "C05: no result for fixed-form layouts of %s" % c["set"], {"set": c["set"]})
            continue
        for lay, x in zip(c["layouts"], r["res"]):
            chk.count()
            chk.cov["traces_validated_against_impl"] += 1
            src = "\n".join(lay["lines"]) + "\n"
            chk.distinct(src)
            rp = {"set": c["set"], "lines": lay["lines"]}
            if x["mode"] != "fix":
                chk.violation({"clause": "not-detected-as-fixed", "set": c["set"]}, "C05: mode %s for fixed-form text\n%s" % (x["mode"], src), rp)
            elif x["o"]["res"] != "ok":
                o = x["o"]
                chk.violation({"clause": "layout-not-accepted", "type": o.get("type"), "via": o.get("via")},
                              "C05: fixed-form layout not accepted (%s):\n%s" % (o, src), rp)
            elif x["sci"] != cstruct[c["set"]]["sci"]:
                chk.violation({"clause": "tree-differs", "set": c["set"]}, "C05: tree differs from the free-form rendering:\n%s" % src, rp)
    for c in cases[:: max(1, len(cases) // 3)][:3]:
        chk.sample({"statement_set": c["set"], "fixed_form_layout": c["layouts"][len(c["layouts"]) // 2]["lines"]})


def run(prop, tier=None, replay=None):
    chk = Check(prop, "model_checking", tier)
    tier = chk.tier
    rset = None
    rform = None
    if replay:
        rset = json.load(open(replay))["replay"].get("set")
        rform = json.load(open(replay))["replay"].get("form")
    if prop == "C05":
        cases = run_fixed(chk, tier, rset)
        chk.phase("generate")
        check_fixed(chk, cases)
        chk.phase("replay-statement-layouts")
        if not replay:
            program_fixed(chk, tier)
            chk.phase("replay-programs")
        chk.cov["exhaustive"] = tier != "quick" and not chk.cov.get("layout_sets_sampled") and not chk.cov.get("layout_sets_sampled")
        chk.cov["rule"] = ("layouts = behaviours of FixedForm.tla for 12 statement sets (every wrap position incl. inside tokens and literals x continuation character x comment lines "
                           "between x label adjustment x trailing comment); whole generated programs rendered in fixed form with three wrap widths; distinct_nontrivial = distinct texts")
        chk.assumptions = ["Decode in FixedForm.tla is the statement of F2008 3.3.3", "no physical line ends in a significant blank (class restriction, DESIGN.md 4.3)"]
        return chk.finish()
    if prop in ("C04", "C12") and rform != "fixed":
        cases = run_free(chk, prop, tier, rset)
        chk.phase("generate")
        check_free(chk, prop, cases)
        chk.phase("replay-statement-layouts")
    if prop == "C12" and (not replay or rform == "fixed"):
        # the same law in fixed form: every layout of FixedForm.tla, the reader's items against the layout's ground truth
        # (the reader is told the form, so a line may also end in & - inside a literal - which the detector would take for free form)
        check_fixed_items(chk, run_fixed(chk, tier, rset, amp_end=True))
        chk.phase("replay-fixed-form-layouts")
    if prop == "C04" and not replay:
        program_layouts(chk, tier)
        chk.phase("replay-program-layouts")
    if prop == "C12" and not replay:
        reader_walks(chk, tier)
        chk.phase("replay-walks")
    chk.cov["exhaustive"] = tier != "quick" and not chk.cov.get("layout_sets_sampled")
    chk.cov["rule"] = ("(C12 also: the layouts of FixedForm.tla for the same sets, reader items against their ground truth) layouts = behaviours of FreeForm.tla for 12 statement sets (every break position incl. inside tokens and character literals x leading & x trailing comment x "
                       "intervening blank/comment lines x optional blanks x ';' joins, bounded by MaxBreaks/MaxExtras); quick replays a stride sample of at most 900 per set; "
                       "distinct_nontrivial = distinct physical texts")
    chk.assumptions = ["Decode in FreeForm.tla is the statement of F2008 3.3.2; TLC checks it inverts every generated layout"]
    return chk.finish()


# ------------------------------------------------------------------ program-level layouts (C04)
def program_layouts(chk, tier):
    from . import perturbed
    from .. import render, perturb, obs
    behs = perturbed.generate(chk, "C04", tier, chk.seed)
    cases = []
    for b in behs:
        stmts = render.stmts_of(b["out"])
        base = render.free_text(stmts)
        lay = perturb.layout(b["out"], b["ed"])
        src = perturb.text_of(lay)
        if not render.free_form_evident(src):
            chk.cov["layouts_without_free_form_evidence_skipped"] = chk.cov.get("layouts_without_free_form_evidence_skipped", 0) + 1
            continue
        cases.append({"id": b["id"], "beh": b, "jobs": [dict(name="P", src=base, std="f2008", ic=True), dict(name="L", src=src, std="f2008", ic=True),
                                                           dict(name="Lk", src=src, std="f2008", ic=False)]})
    res = pmap(obs.run_jobs, [{"id": c["id"], "jobs": c["jobs"]} for c in cases], timeout=120, batch=16)
    D = session.Digests()
    ctr = [0]
    events = []
    live = []
    for i, (c, r) in enumerate(zip(cases, res)):
        if "__timeout__" in r or "__died__" in r:
            chk.violation({"clause": "no-result"}, "C04: no result for a program layout", {"beh": c["beh"]})
            continue
        c["tid"] = i + 1
        ev = [{"e": "begin", "t": c["tid"]}]
        J = {j["name"]: j for j in c["jobs"]}
        for name in ("P", "L"):
            t = perturbed.parse_ev(ev, D, ctr, r["jobs"][name]["src"], perturbed.cfgid(J[name]), r["jobs"][name])
            if t:
                ev.append({"e": "print", "tree": t, "text": D(r["jobs"][name]["text"]), "tci": D(r["jobs"][name]["tci"])})
        refs = {"src2": D(r["jobs"]["L"]["src"]), "cfg2": perturbed.cfgid(J["L"])}
        # letter case may differ only where the layout itself changes it (a "case" edit)
        recased = any(e["t"] == "case" for e in c["beh"]["ed"])
        ev.append({"e": "claim", "law": "sametree", "src": D(r["jobs"]["P"]["src"]), "cfg": perturbed.cfgid(J["P"]), "ci": recased, **refs})
        ev.append({"e": "claim", "law": "sametextci", "src": D(r["jobs"]["P"]["src"]), "cfg": perturbed.cfgid(J["P"]), **refs})
        events.extend(ev)
        live.append((c, r))
        chk.count(2)
        chk.distinct(r["jobs"]["L"]["src"])
    rej = session.validate(chk, events, name="c04prog")
    bytid = {c["tid"]: (c, r) for c, r in live}
    for tid, clause in rej:
        c, r = bytid[tid]
        kinds = sorted({e["t"] + str(e.get("b", "")) for e in c["beh"]["ed"]})
        chk.violation({"clause": clause, "level": "program", "edits": ",".join(kinds)[:60]},
                      "C04: %s for program layout (edits %s):\n%s" % (clause, c["beh"]["ed"], c["jobs"][1]["src"][:800]), {"beh": c["beh"], "clause": clause})


# ------------------------------------------------------------------ get/put walks (C12)
WALK_SOURCES = {
    "plain": ("program p\n  integer :: i\n  i = 1\n  call s(i)\nend program p\n", {}, True),
    "comments": ("program p\n  ! first\n  i = 1  ! trailing\n  call s(i, &\n    ! inside\n    2)\nend program p\n", {}, False),
    "semicolon": ("program p\n  i = 1; j = 2; k = 3\n  10 continue; nm: do i = 1, 2; end do nm\nend program p\n", {}, True),
    "include2": ("program p\n  include 'a.inc'\nend program p\n",
                 {"a.inc": "  x = 1\n  include 'b.inc'\n  y = 2\n", "b.inc": "  z1 = 1\n  z2 = 2\n  z3 = 3\n"}, True),
    "include1": ("program p\n  u = 0\n  include 'c.inc'\n  v = 9\nend program p\n", {"c.inc": "  w1 = 1\n  w2 = 2\n"}, True),
    # the same file twice (also directly after a nested inclusion of it); a file name that holds the other quote character
    "include_twice": ("subroutine a\n  include 'd.inc'\n  include 'e.inc'\n  include 'd.inc'\nend subroutine a\nsubroutine b\n  include 'd.inc'\nend subroutine b\n",
                      {"d.inc": "  t1 = 1\n", "e.inc": "  include 'd.inc'\n  t2 = 2\n"}, True),
    "include_quote": ("program p\n  include \"o'f.inc\"\n  v = 9\nend program p\n", {"o'f.inc": "  q1 = 1\n"}, True),
}
# what the reader has to deliver for the sources with INCLUDE lines (statement texts, blanks removed)
WALK_EXPECT = {
    "include2": ["programp", "x=1", "z1=1", "z2=2", "z3=3", "y=2", "endprogramp"],
    "include1": ["programp", "u=0", "w1=1", "w2=2", "v=9", "endprogramp"],
    "include_twice": ["subroutinea", "t1=1", "t1=1", "t2=2", "t1=1", "endsubroutinea", "subroutineb", "t1=1", "endsubroutineb"],
    "include_quote": ["programp", "q1=1", "v=9", "endprogramp"],
}


def _mk_reader(name, tmp):
    from .. import fp
    src, files, ic = WALK_SOURCES[name]
    for fn, txt in files.items():
        with open(os.path.join(tmp, fn), "w") as f:
            f.write(txt)
    return fp.FortranStringReader(src, include_dirs=[tmp], ignore_comments=ic)


def _txt(it):
    return (type(it).__name__, squeeze(getattr(it, "line", None) or getattr(it, "comment", "")), getattr(it, "span", None))


def stream_of(case):
    import tempfile, shutil
    tmp = tempfile.mkdtemp(prefix="walk", dir=os.path.join(common.WORK, "tmp"))
    try:
        rd = _mk_reader(case["name"], tmp)
        out = []
        while True:
            it = rd.get_item()
            if it is None:
                break
            out.append(_txt(it))
        return out
    finally:
        shutil.rmtree(tmp, ignore_errors=True)


def work_walks(case):
    import tempfile, shutil
    res = []
    for w in case["walks"]:
        tmp = tempfile.mkdtemp(prefix="walk", dir=os.path.join(common.WORK, "tmp"))
        try:
            rd = _mk_reader(case["name"], tmp)
            delivered = []
            seen = []
            k = 0
            err = None
            for op in w["ops"]:
                if op == "get":
                    it = rd.get_item()
                    if it is None:
                        seen.append(0)
                    else:
                        idx = next((i for i, d in enumerate(delivered) if d is it), None)
                        if idx is None:
                            delivered.append(it)
                            idx = len(delivered) - 1
                        seen.append(idx + 1)
                        k += 1
                else:
                    rd.put_item(delivered[k - 1])
                    k -= 1
            rest = []
            while True:
                it = rd.get_item()
                if it is None:
                    break
                rest.append(_txt(it))
            res.append({"seen": seen, "rest": rest})
        except Exception as e:  # noqa: BLE001
            res.append({"err": "%s: %s" % (type(e).__name__, str(e)[:100])})
        finally:
            shutil.rmtree(tmp, ignore_errors=True)
    return {"id": case["id"], "res": res}


def reader_walks(chk, tier):
    os.makedirs(os.path.join(common.WORK, "tmp"), exist_ok=True)
    names = sorted(WALK_SOURCES)
    streams = pmap(stream_of, [{"id": i, "name": n} for i, n in enumerate(names)], chunksize=1)
    maxops = 8 if tier == "quick" else 12
    cases = []
    for n, st in zip(names, streams):
        if n in WALK_EXPECT:
            got = [squeeze(t[1]).lower() for t in st]
            if got != WALK_EXPECT[n]:
                chk.violation({"clause": "include-stream-differs", "walks": n}, "C12: the reader delivers %s for source %s, expected %s" % (got, n, WALK_EXPECT[n]), {"name": n})
        cfg = "_ReaderAPI_%s_%s.cfg" % (n, tier)
        with open(os.path.join(common.SPECS, cfg), "w") as f:
            f.write("SPECIFICATION Spec\nCONSTANTS\n  NItems = %d\n  MaxOps = %d\nINVARIANT Sound\nCONSTRAINT Dump\n" % (len(st), maxops))
        try:
            r = tlc.run("ReaderAPI.tla", cfg, workers=4, timeout=3000, name="rapi_" + n)
        finally:
            os.remove(os.path.join(common.SPECS, cfg))
        if not r.ok():
            raise MachineryError("TLC failed on ReaderAPI for %s: %s %s" % (n, r.invariant_violated, r.error))
        chk.add_tlc(r)
        walks = sorted(r.beh, key=lambda b: json.dumps(b["ops"]))
        for j in range(0, len(walks), 100):
            cases.append({"id": len(cases), "name": n, "walks": walks[j:j + 100], "stream": st})
    res = pmap(work_walks, [{"id": c["id"], "name": c["name"], "walks": c["walks"]} for c in cases], timeout=600)
    for c, r in zip(cases, res):
        if "__timeout__" in r or "__died__" in r:
            chk.violation({"clause": "no-result", "walks": c["name"]}, "C12: no result for get/put walks on %s" % c["name"], {"name": c["name"]})
            continue
        for w, x in zip(c["walks"], r["res"]):
            chk.count()
            chk.cov["traces_validated_against_impl"] += 1
            chk.distinct((c["name"], tuple(w["ops"])))
            exp_rest = [tuple(t) if not isinstance(t, tuple) else t for t in c["stream"]][len(c["stream"]) - len(w["rest"]):]
            if "err" in x:
                chk.violation({"clause": "walk-raised", "walks": c["name"]}, "C12: %s during walk %s on %s" % (x["err"], w["ops"], c["name"]), {"name": c["name"], "ops": w["ops"]})
            elif x["seen"] != w["seen"]:
                chk.violation({"clause": "redelivery-differs", "walks": c["name"]}, "C12: walk %s on %s delivered items %s, the specification says %s" % (w["ops"], c["name"], x["seen"], w["seen"]),
                              {"name": c["name"], "ops": w["ops"]})
            elif [tuple(map(lambda v: tuple(v) if isinstance(v, list) else v, t)) for t in x["rest"]] != [tuple(map(lambda v: tuple(v) if isinstance(v, list) else v, t)) for t in exp_rest]:
                chk.violation({"clause": "remaining-stream-differs", "walks": c["name"]}, "C12: after walk %s on %s the remaining stream is %s, expected %s" % (w["ops"], c["name"], x["rest"], exp_rest),
                              {"name": c["name"], "ops": w["ops"]})


# ------------------------------------------------------------------ whole programs in fixed form (C05)
# comment texts: after a C/c the text may look like a statement ("Call counter", "continue with") - still a comment
FIXED_COMMENTS = {
    "C": ["C comment 'x", "Call counter is reset here", "Continue with the next block", "Common block layout", "Character data follow", "Close(1)", "Case 1", "C"],
    "c": ["c comment", "call this \"later\"", "continue", "contains nothing", "cycle", "complex numbers", "critical section", "c"],
    "*": ["* star", "*", "* 'quote", "*call"],
    "!": ["! bang", "!x", "! it's", "!"],
}


def fixed_render(stmts, wrap, cont, cstyle, salt):
    """Render logical statements in fixed form: wrap column, continuation character, comment style."""
    lines = []
    for k, s in enumerate(stmts):
        lab = str(s["label"]) if s["label"] else ""
        if (k + salt) % 3 == 0:
            lab = lab.rjust(5)
        text = ((s["cname"] + ": ") if s["cname"] else "") + s["text"]
        ind = " " * min(2 * s["d"], 6)
        text = ind + text
        first = True
        head = len(((s["cname"] + ": ") if s["cname"] else "")) + len(ind)
        while True:
            room = wrap - 6
            if len(text) <= room:
                chunk, text = text, ""
            else:
                cut = room
                # never end a line in a blank, never cut directly after the construct name (known finding KF-C06-2)
                # ... and never in '&' (the form detector takes a trailing '&' for free form; class restriction, DESIGN.md 4.3)
                while cut > 1 and (text[cut - 1] in " &" or (first and cut <= head + 1)):
                    cut -= 1
                if cut <= 1 or (first and cut <= head + 1):
                    cut = room
                    while cut < len(text) and text[cut - 1] in " &":
                        cut += 1
                chunk, text = text[:cut], text[cut:]
            lines.append(("%-5s " % lab if first else "     " + cont) + chunk)
            if not text:
                break
            if (k + salt + len(lines)) % 5 == 0:
                lines.append(FIXED_COMMENTS[cstyle][(k + salt) % len(FIXED_COMMENTS[cstyle])])
            first = False
        if (k + salt) % 7 == 0:
            lines.append(FIXED_COMMENTS[cstyle][(k * 3 + salt) % len(FIXED_COMMENTS[cstyle])])
    return "\n".join(lines) + "\n"


def tab_render(stmts):
    lines = []
    for k, s in enumerate(stmts):
        lab = str(s["label"]) if s["label"] else ""
        text = ((s["cname"] + ": ") if s["cname"] else "") + s["text"]
        lines.append(lab + "\t" + text)
        if k % 4 == 1:
            lines.append("C\ta comment with a tab")
    return "\n".join(lines) + "\n"


def fixed_kinds(src):
    """The sequence of leaf kinds ('s' statement, 'c' comment) of a fixed-form text produced by the renderers."""
    out = []
    for ln in src.split("\n"):
        if not ln.strip():
            continue
        if ln[0] in "Cc*!":
            out.append("c")
        elif len(ln) > 5 and ln[:5].strip() == "" and ln[5] not in " 0" and "\t" not in ln[:6]:
            continue                      # continuation line
        else:
            out.append("s")
    # comments inside a continued statement are delivered after it
    return reorder_comments(src, out)


def reorder_comments(src, kinds):
    """Comments between the lines of a continued statement come after the statement."""
    lines = [ln for ln in src.split("\n") if ln.strip()]
    res = []
    pending = []
    i = 0
    n = len(lines)

    def is_c(ln):
        return ln[0] in "Cc*!"

    def is_cont(ln):
        return len(ln) > 5 and ln[:5].strip() == "" and ln[5] not in " 0" and "\t" not in ln[:6] and not is_c(ln)
    while i < n:
        ln = lines[i]
        if is_c(ln):
            res.append("c")
            i += 1
            continue
        # a statement: collect its continuation lines and the comments between them
        res.append("s")
        j = i + 1
        held = 0
        got = 0
        while j < n and (is_c(lines[j]) or is_cont(lines[j])):
            if is_cont(lines[j]):
                got += held
                held = 0
            else:
                held += 1
            j += 1
        res.extend(["c"] * got)
        i = j - held
    return res


def work_progfixed(case):
    from .. import fp
    out = {}
    for name, src in case["srcs"].items():
        try:
            rd = fp.reader(src, ignore_comments=True)
            mode = rd.format.mode
        except BaseException as e:  # noqa: BLE001
            if isinstance(e, KeyboardInterrupt):
                raise
            mode = "error"
        o, t = fp.parse(fp.create("f2008"), src, ignore_comments=True)
        out[name] = {"mode": mode, "o": o, "sci": fp.struct(t, ci=True) if t is not None else None}
        if name in case.get("files", ()):
            # the same text in a FILE behind a long header of comment lines (a licence text of 150 lines): the detector works on the
            # file there; mode and tree have to be those of the text alone
            import tempfile
            head = "".join("%s %s\n" % ("!" if name == "free" else "C*c!"[case["id"] % 4], ("line %3d of a long header " % i) * 4) for i in range(150))
            with tempfile.TemporaryDirectory() as tmpd:
                fn = os.path.join(tmpd, "prog.src")
                with open(fn, "w") as f:
                    f.write(head + src)
                try:
                    rd = fp.FortranFileReader(fn, ignore_comments=True)
                    fmode = rd.format.mode
                    o3, t3 = fp.parse(fp.create("f2008"), rd)
                except BaseException as e:  # noqa: BLE001
                    if isinstance(e, KeyboardInterrupt):
                        raise
                    fmode, o3, t3 = "error", fp.outcome_of_exception(e), None
            out[name]["file"] = {"mode": fmode, "o": o3, "sci": fp.struct(t3, ci=True) if t3 is not None else None}
        # with comments kept: the interleaving of statements and comments (kinds only; the comment texts differ by style)
        o2, t2 = fp.parse(fp.create("f2008"), src, ignore_comments=False)
        out[name]["o_keep"] = o2
        if t2 is not None:
            from .. import obs
            out[name]["kinds"] = [k if k != "d" else "c" for k, _ in obs.leaves_of(t2)]
    return {"id": case["id"], "out": out}


CONT_POOL = list("123456789&+x$!*cC#.-=:;%@ABZ/\\")


def program_fixed(chk, tier):
    from .. import render
    # (thorough: the sweep over all contexts, unit sequences, DO nests and 12 000 simulated programs; the 48 000 programs of the
    # exhaustive reduced alphabet add little for the source form and made this check run for more than an hour)
    progs = programs.generate(chk, tier, chk.seed, ("sweep", "sim") if tier == "quick" else ("sweep", "sim", "units"))
    cases = []
    for p in progs:
        srcs = {"free": p["src"]}
        # column 6 may hold any character other than blank and zero
        cc = CONT_POOL[p["id"] % len(CONT_POOL)]
        c2 = CONT_POOL[(p["id"] * 7 + 3) % len(CONT_POOL)]
        variants = [[(72, cc, "C"), (17, c2, "!")], [(40, "!", "*"), (30, "*", "c")]][p["id"] % 2] if tier != "quick" else \
            [[(72, cc, "C"), (40, "!", "*"), (17, c2, "c"), (30, "c", "C")][p["id"] % 4]]
        kinds = {}
        for w, c, st in variants:
            srcs["fix%d" % w] = fixed_render(p["stmts"], w, c, st, p["id"])
        if p["id"] % 2 == 0:
            # tab source form: a TAB after the (possibly empty) label field takes the text past column 6
            srcs["tab"] = tab_render(p["stmts"])
        for name, src in srcs.items():
            if name != "free":
                kinds[name] = fixed_kinds(src)
        files = [n for n in srcs if n != "tab"] if p["id"] % (5 if tier == "quick" else 2) == 0 else []
        cases.append({"id": p["id"], "srcs": srcs, "kinds": kinds, "files": files})
    res = pmap(work_progfixed, cases, timeout=300)
    for c, r in zip(cases, res):
        if "__timeout__" in r or "__died__" in r:
            chk.violation({"clause": "no-result"}, "C05: no result for program %d" % c["id"], {"srcs": c["srcs"]})
            continue
        free = r["out"]["free"]
        chk.count(len(c["srcs"]))
        if free["mode"] != "free":
            chk.violation({"clause": "free-not-detected-as-free"}, "C05: a free-form program starting in column 1 is detected as %s:\n%s" % (free["mode"], c["srcs"]["free"][:400]), {"srcs": c["srcs"]})
        for name, x in r["out"].items():
            if "file" in x:
                chk.count()
                fx = x["file"]
                if fx["mode"] != x["mode"] or fx["o"]["res"] != x["o"]["res"] or fx["sci"] != x["sci"]:
                    chk.violation({"clause": "file-behind-long-header-differs", "level": "program", "which": "free" if name == "free" else "fixed"},
                                  "C05: the %s text read from a file behind 150 comment lines: mode %s, %s (the text alone: mode %s, %s):\n%s" % (
                                      name, fx["mode"], fx["o"], x["mode"], x["o"]["res"], c["srcs"][name][:500]), {"srcs": c["srcs"], "which": name, "file": True})
            if name == "free":
                continue
            chk.distinct(c["srcs"][name])
            chk.cov["traces_validated_against_impl"] += 1
            if x["mode"] != "fix":
                chk.violation({"clause": "not-detected-as-fixed", "level": "program"}, "C05: fixed-form program detected as %s:\n%s" % (x["mode"], c["srcs"][name][:600]), {"srcs": c["srcs"], "which": name})
            elif x["o"]["res"] != "ok":
                chk.violation({"clause": "layout-not-accepted", "level": "program", "type": x["o"].get("type"), "via": x["o"].get("via")},
                              "C05: fixed-form program not accepted (%s):\n%s" % (x["o"], c["srcs"][name][:800]), {"srcs": c["srcs"], "which": name})
            elif free["o"]["res"] == "ok" and x["sci"] != free["sci"]:
                chk.violation({"clause": "tree-differs", "level": "program"}, "C05: fixed-form program parses differently from its free-form text:\n%s" % c["srcs"][name][:800], {"srcs": c["srcs"], "which": name})
            elif x["o_keep"]["res"] != "ok":
                chk.violation({"clause": "layout-not-accepted-with-comments", "level": "program"}, "C05: fixed-form program not accepted when comments are kept (%s):\n%s" % (x["o_keep"], c["srcs"][name][:800]),
                              {"srcs": c["srcs"], "which": name})
            else:
                # every comment line of the fixed-form text is a comment leaf, in place: the statement/comment interleaving is the one the renderer produced
                exp = c["kinds"][name]
                if x.get("kinds") != exp:
                    chk.violation({"clause": "comments-differ", "level": "program"}, "C05: with comments kept the fixed-form program yields leaves %s..., expected %s...:\n%s" % (
                        (x.get("kinds") or [])[:30], exp[:30], c["srcs"][name][:800]), {"srcs": c["srcs"], "which": name})
