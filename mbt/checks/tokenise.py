"""Placeholder mechanism (string_replace_map / StringReplaceDict): Tokenise.tla's prediction and law
replayed into the real functions.  Part of the C02 check (DESIGN.md 4.10)."""
import json, re
from .. import common, tlc
from ..framework import pmap, MachineryError

TEXT = {"a": "a", "op": "+", "c": ",", "(": "(", ")": ")", "[": "[", "]": "]", "S1": "'p q'", "S1d": '"p q"', "S2": "'r+s'", "Ss": "'x'",
        "E1": "1.e-3", "E2": "2.5d+4"}
_KEY = re.compile(r"(['\"])_F2PY_STRING_CONSTANT_(\d+)_\1|F2PY_REAL_CONSTANT_(\d+)_|F2PY_EXPR_TUPLE_(\d+)|'x'|[a+,()\[\]]")


def abstract(newline):
    out = []
    pos = 0
    s = newline.replace(" ", "")
    for m in _KEY.finditer(s):
        if m.start() != pos:
            return None
        pos = m.end()
        t = m.group()
        if m.group(2):
            out.append(["S", int(m.group(2)), "dq" if m.group(1) == '"' else "sq"])
        elif m.group(3):
            out.append(["R", int(m.group(3))])
        elif m.group(4):
            out.append(["T", int(m.group(4))])
        elif t == "'x'":
            out.append(["Ss"])
        else:
            out.append([{"a": "a", "+": "op", ",": "c"}.get(t, t)])
    return out if pos == len(s) else None


def squeeze(text):
    out = []
    q = None
    for ch in text:
        if q:
            out.append(ch)
            if ch == q:
                q = None
        elif ch in "'\"":
            q = ch
            out.append(ch)
        elif ch != " ":
            out.append(ch)
    return "".join(out)


def work(case):
    common.use_repo_source()
    from fparser.common.splitline import string_replace_map
    res = []
    for b in case["behs"]:
        text = " ".join(TEXT[t] for t in b["line"])
        r = {"text": text}
        try:
            newline, rmap = string_replace_map(text)
            r["form"] = abstract(newline)
            r["newline"] = newline
            r["restored"] = rmap(newline)
            r["nkeys"] = len(rmap)
        except Exception as e:  # noqa: BLE001
            r["err"] = "%s: %s" % (type(e).__name__, str(e)[:100])
        res.append(r)
    return {"id": case["id"], "res": res}


def run_part(chk, tier):
    behs = []
    for cfg, kw in ((("Tokenise_quick.cfg", {}),) if tier == "quick" else (("Tokenise_quick.cfg", {}), ("Tokenise_thorough.cfg", {}))):
        r = tlc.run("MCTokenise.tla", cfg, timeout=20000, **kw)
        if r.invariant_violated:
            chk.violation({"clause": "spec-" + r.invariant_violated}, "TLC: %s of Tokenise.tla violated" % r.invariant_violated, {"cfg": cfg})
        elif not r.ok():
            raise MachineryError("TLC failed on %s: %s" % (cfg, r.error))
        chk.add_tlc(r)
        chk.cov.setdefault("tlc_runs", []).append({"cfg": cfg, "distinct": r.distinct, "lines": len(r.beh), "wall_s": r.wall_s})
        behs.extend(r.beh)
    r = tlc.run("MCTokenise.tla", "Tokenise_sim.cfg", workers=8, simulate=dict(num=100 if tier == "quick" else 5000, depth=200), seed=chk.seed + 23, timeout=20000)
    if r.invariant_violated:
        chk.violation({"clause": "spec-" + r.invariant_violated}, "TLC: %s of Tokenise.tla violated on a simulated line" % r.invariant_violated, {"cfg": "Tokenise_sim.cfg"})
    elif not r.ok():
        raise MachineryError("TLC failed on Tokenise_sim.cfg: %s" % r.error)
    chk.add_tlc(r)
    behs.extend(r.beh)
    if tier == "quick":
        keep = [b for b in behs if b["nstr"] + b["nreal"] + b["ntup"] > 0]
        rest = [b for b in behs if b["nstr"] + b["nreal"] + b["ntup"] == 0]
        behs = keep + rest[::10]
    cases = [{"id": i, "behs": behs[i:i + 400]} for i in range(0, len(behs), 400)]
    res = pmap(work, cases, timeout=600)
    n = 0
    for c, r in zip(cases, res):
        if "__timeout__" in r or "__died__" in r:
            chk.violation({"clause": "placeholder-no-result"}, "C02: string_replace_map did not return", {"behs": c["behs"][:3]})
            continue
        for b, x in zip(c["behs"], r["res"]):
            n += 1
            if "err" in x:
                chk.violation({"clause": "placeholder-raised"}, "C02: string_replace_map/%s on %r" % (x["err"], x["text"]), {"line": b["line"]})
            elif squeeze(x["restored"]) != squeeze(x["text"]):
                chk.violation({"clause": "placeholder-not-lossless"}, "C02: repmap(string_replace_map(line)) = %r for line %r (placeholder form %r)" % (x["restored"], x["text"], x["newline"]),
                              {"line": b["line"]})
            elif x["form"] != b["form"]:
                chk.violation({"clause": "placeholder-form-differs"}, "C02: placeholder form %r of %r differs from the specification's %s" % (x["newline"], x["text"], b["form"]),
                              {"line": b["line"]})
    chk.count(n)
    chk.cov["placeholder_lines_replayed"] = n
