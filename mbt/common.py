"""Shared paths and settings of the verification machinery (see DESIGN.md section 10)."""
import os, sys, json, time, hashlib, shutil

VERIF = os.path.dirname(os.path.dirname(os.path.abspath(__file__)))
SPECS = os.path.join(VERIF, "specs")
# VERIF_WORK_SUFFIX: set by tools/run_seeds.py so that runs against a mutated tree do not touch the
# evidence, replays and scratch files of the real runs
_SUF = os.environ.get("VERIF_WORK_SUFFIX", "")
WORK = os.path.join(VERIF, ".work" + (("/mut_" + _SUF) if _SUF else ""))
EVID = os.path.join(VERIF, "evidence") if not _SUF else os.path.join(WORK, "evidence")
REPLAYS = os.path.join(VERIF, "replays") if not _SUF else os.path.join(WORK, "replays")
FPARSER_SRC = os.environ.get("FPARSER_SRC", "/repo/src")
NCPU = int(os.environ.get("VERIF_JOBS", "16"))
PY = "/venv/bin/python"


def seed():
    try:
        return int(os.environ.get("VERIF_SEED", "0"))
    except ValueError:
        return 0


def tier(default="quick"):
    t = os.environ.get("VERIF_TIER", default)
    return t if t in ("quick", "thorough") else default


def workdir(name, clean=True):
    d = os.path.join(WORK, name)
    if clean and os.path.isdir(d):
        shutil.rmtree(d, ignore_errors=True)
    os.makedirs(d, exist_ok=True)
    return d


def use_repo_source():
    """Make `import fparser` resolve to the tree under test (FPARSER_SRC)."""
    if FPARSER_SRC not in sys.path[:1]:
        sys.path.insert(0, FPARSER_SRC)
    os.environ.setdefault("PYTHONHASHSEED", "0")
    import logging
    logging.disable(logging.CRITICAL)


def sha(text):
    return hashlib.sha1(text.encode("utf-8", "replace")).hexdigest()[:12]


class Timer:
    def __init__(self):
        self.t0 = time.time()

    def s(self):
        return round(time.time() - self.t0, 2)
