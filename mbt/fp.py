"""Binding to the implementation under test: calls into fparser and the projections of its
observable state (DESIGN.md 3.4).  Import only after common.use_repo_source()."""
import re, sys, traceback, os
from . import common

common.use_repo_source()
from fparser.common.readfortran import FortranStringReader, FortranFileReader  # noqa: E402
from fparser.common import readfortran  # noqa: E402
from fparser.common.sourceinfo import FortranFormat  # noqa: E402
from fparser.two.parser import ParserFactory  # noqa: E402
from fparser.two import utils as two_utils  # noqa: E402
from fparser.two.utils import FortranSyntaxError, walk, Base, BlockBase, StmtBase  # noqa: E402
from fparser.two import symbol_table  # noqa: E402
from fparser.two import Fortran2003  # noqa: E402

_PARSERS = {}
FPARSER_DIR = os.path.dirname(os.path.dirname(os.path.abspath(readfortran.__file__)))


def create(std):
    """ParserFactory().create(std) - always re-created (it resets process-wide state)."""
    return ParserFactory().create(std=std)


def reader(src, ignore_comments=True, process_directives=False, include_dirs=None, omp=False, fmt=None):
    kw = dict(ignore_comments=ignore_comments, process_directives=process_directives)
    if include_dirs is not None:
        kw["include_dirs"] = include_dirs
    if omp:
        kw["include_omp_conditional_lines"] = True
    r = FortranStringReader(src, **kw)
    if fmt is not None:
        r.set_format(FortranFormat(*fmt))
    return r


def esc_site(exc):
    """(type name, innermost fparser frame, the fparser frame that called it) of an escaped exception."""
    tb = exc.__traceback__
    frames = []
    while tb is not None:
        co = tb.tb_frame.f_code
        fn = co.co_filename
        if "fparser" in fn and "/verif/" not in fn:
            qual = getattr(co, "co_qualname", co.co_name)
            frames.append(os.path.basename(fn)[:-3] + "." + qual)
        tb = tb.tb_next
    site = frames[-1] if frames else "?"
    via = next((f for f in reversed(frames[:-1]) if f != site), "?")
    return type(exc).__name__, site, via


_FSE = re.compile(r"at line (\d+)\n>>>(.*)\n", re.S)


def outcome_of_exception(e):
    if isinstance(e, FortranSyntaxError):
        m = _FSE.match(str(e))
        if m:
            return {"res": "fse", "line": int(m.group(1)), "quoted": m.group(2).split("\n")[0], "msg": str(e)[:300]}
        return {"res": "fse", "line": 0, "quoted": "", "msg": str(e)[:300]}
    t, s, via = esc_site(e)
    return {"res": "esc", "type": t, "site": s, "via": via, "msg": str(e)[:200]}


def parse(parser, src, **kw):
    """Run one parse.  Returns (outcome, tree or None).  Never raises (SystemExit included)."""
    try:
        rd = reader(src, **kw) if isinstance(src, str) else src
        tree = parser(rd)
        return {"res": "ok"}, tree
    except BaseException as e:  # noqa: BLE001 - SystemExit/KeyboardInterrupt are outcomes here
        if isinstance(e, KeyboardInterrupt):
            raise
        return outcome_of_exception(e), None


_BLK = re.compile(r"block:\d+")


def renumber_blocks(s):
    seen = {}

    def sub(m):
        if m.group() not in seen:
            seen[m.group()] = "block:#%d" % len(seen)
        return seen[m.group()]
    return _BLK.sub(sub, s)


def struct(tree, ci=False):
    """repr(tree) with synthetic BLOCK names renumbered and trailing empty comments dropped."""
    content = getattr(tree, "content", None)
    if content is not None:
        dropped = []
        while content and type(content[-1]).__name__ == "Comment" and str(content[-1]).strip() == "":
            dropped.append(content.pop())
        try:
            r = repr(tree)
        finally:
            content.extend(reversed(dropped))
    else:
        r = repr(tree)
    r = renumber_blocks(r)
    if ci:
        # structure up to letter case (names, kind parameters, exponent letters ...); the text of character
        # literals is compared separately and exactly through the printed text (obs.tci)
        r = r.lower()
    return r


def text(tree):
    return str(tree).rstrip("\n").rstrip() + "\n"


def tables():
    """The symbol-table forest: sorted list of (name, symbols, modules, children)."""
    st = symbol_table.SYMBOL_TABLES

    def one(t):
        syms = sorted(getattr(t, "_data_symbols", {}).keys())
        mods = sorted(getattr(t, "_modules", {}).keys()) if hasattr(t, "_modules") else []
        return [renumber_name(t.name), syms, mods, [one(c) for c in t.children]]

    return [one(t) for _, t in sorted(st._symbol_tables.items())]


def renumber_name(n):
    return re.sub(r"block:\d+", "block:#", n)


def table_names():
    return sorted(symbol_table.SYMBOL_TABLES._symbol_tables.keys())


def scope():
    cs = symbol_table.SYMBOL_TABLES.current_scope
    return cs.name if cs is not None else None


def node_classes(tree):
    return sorted({type(n).__name__ for n in walk(tree)})
