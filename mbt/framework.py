"""Check framework: parallel execution, known findings, replay files, evidence, verdict.

Exit codes of a check:  0 property held on everything explored (KNOWN-FINDING lines allowed),
1 at least one VIOLATION line, 2 machinery failure (TLC error, TLC/Python disagreement...).
"""
import os, sys, json, time, multiprocessing as mp, traceback
from . import common

KF_FILE = os.path.join(common.VERIF, "known_findings.json")


def load_known_findings():
    with open(KF_FILE) as f:
        return json.load(f)["findings"]


def kf_match(entry, prop, sig):
    if entry.get("property") != prop or entry.get("status") != "open":
        return False
    for k, v in entry.get("signature", {}).items():
        if sig.get(k) != v:
            return False
    return True


class MachineryError(Exception):
    pass


_POOL_FN = None
_POOL_TIMEOUT = None


def _call_plain(args):
    try:
        return _POOL_FN(args)
    except BaseException as e:  # noqa: BLE001
        if isinstance(e, KeyboardInterrupt):
            raise
        return {"__worker_error__": "".join(traceback.format_exception(type(e), e, e.__traceback__))[-2000:]}


def _call(args):
    """Run one item; with a timeout the item runs in a forked child that the kernel can kill even
    when the implementation under test loops inside C code (regular expressions)."""
    if not _POOL_TIMEOUT:
        return _call_plain(args)
    if _breaker_open():
        return {"__timeout__": True, "not_run": True}
    import pickle, select, signal
    r, w = os.pipe()
    pid = os.fork()
    if pid == 0:
        try:
            os.close(r)
            data = pickle.dumps(_call_plain(args))
            with os.fdopen(w, "wb") as f:
                f.write(data)
        finally:
            os._exit(0)
    os.close(w)
    chunks = []
    deadline = time.time() + _POOL_TIMEOUT
    timed_out = False
    with os.fdopen(r, "rb") as f:
        while True:
            left = deadline - time.time()
            if left <= 0:
                timed_out = True
                break
            ready, _, _ = select.select([f], [], [], min(left, 5.0))
            if ready:
                b = f.read1(1 << 20) if hasattr(f, "read1") else f.read()
                if not b:
                    break
                chunks.append(b)
    if timed_out:
        try:
            os.kill(pid, signal.SIGKILL)
        except OSError:
            pass
    os.waitpid(pid, 0)
    if timed_out:
        _breaker_hit()
        return {"__timeout__": True}
    try:
        return pickle.loads(b"".join(chunks))
    except Exception:  # noqa: BLE001 - the child died without an answer (SystemExit via os._exit, crash)
        return {"__died__": True}


# circuit breaker: once this many cases of one map have hit the time limit, the rest is not run (each would cost the full
# limit again); they get the verdict {"__timeout__": True, "not_run": True} and the check reports the violations it has
TIMEOUT_BREAKER = 48
_BREAKER_FILE = None


def _breaker_open():
    try:
        return _BREAKER_FILE is not None and os.path.getsize(_BREAKER_FILE) >= TIMEOUT_BREAKER
    except OSError:
        return False


def _breaker_hit():
    if _BREAKER_FILE is not None:
        with open(_BREAKER_FILE, "ab") as f:
            f.write(b"x")


def _call_batch(batch):
    """Run a batch of items in forked children, one child for as many items as it survives: the child
    streams one result per item; when it exceeds the per-item time limit or dies, that item gets the
    verdict and a new child carries on with the rest."""
    import pickle, select, signal, struct
    results = []
    todo = list(batch)
    while todo:
        if _breaker_open():
            results.extend({"__timeout__": True, "not_run": True} for _ in todo)
            break
        r, w = os.pipe()
        pid = os.fork()
        if pid == 0:
            try:
                os.close(r)
                with os.fdopen(w, "wb") as f:
                    for args in todo:
                        data = pickle.dumps(_call_plain(args))
                        f.write(struct.pack("<Q", len(data)) + data)
                        f.flush()
            finally:
                os._exit(0)
        os.close(w)
        buf = b""
        got = 0
        verdict = None
        deadline = time.time() + _POOL_TIMEOUT
        with os.fdopen(r, "rb") as f:
            while got < len(todo):
                left = deadline - time.time()
                if left <= 0:
                    verdict = {"__timeout__": True}
                    break
                ready, _, _ = select.select([f], [], [], min(left, 5.0))
                if not ready:
                    continue
                b = f.read1(1 << 20)
                if not b:
                    verdict = {"__died__": True}
                    break
                buf += b
                while len(buf) >= 8:
                    n = struct.unpack("<Q", buf[:8])[0]
                    if len(buf) < 8 + n:
                        break
                    results.append(pickle.loads(buf[8:8 + n]))
                    buf = buf[8 + n:]
                    got += 1
                    deadline = time.time() + _POOL_TIMEOUT
        if verdict is not None:
            try:
                os.kill(pid, signal.SIGKILL)
            except OSError:
                pass
        os.waitpid(pid, 0)
        if verdict is None:
            break
        if "__timeout__" in verdict:
            _breaker_hit()
        results.append(verdict)
        todo = todo[got + 1:]
    return results


def pmap(fn, items, chunksize=None, procs=None, timeout=None, batch=None):
    """Fork-based parallel map; fn must be a module-level function.  With `timeout` (seconds per
    item) a result may be {"__timeout__": True} or {"__died__": True}.  With `batch` as well, up to
    that many items share one killable child (cheap items: one fork per batch instead of one per item;
    items then see the process state their predecessors in the batch left behind)."""
    global _POOL_FN, _POOL_TIMEOUT
    items = list(items)
    if not items:
        return []
    procs = min(procs or common.NCPU, len(items))
    _POOL_FN = fn
    _POOL_TIMEOUT = timeout
    global _BREAKER_FILE
    _BREAKER_FILE = None
    if timeout:
        import tempfile
        os.makedirs(os.path.join(common.WORK, "tmp"), exist_ok=True)
        fd, _BREAKER_FILE = tempfile.mkstemp(prefix="breaker", dir=os.path.join(common.WORK, "tmp"))
        os.close(fd)
    if timeout and batch and batch > 1:
        batches = [items[i:i + batch] for i in range(0, len(items), batch)]
        ctx = mp.get_context("fork")
        with ctx.Pool(min(procs, len(batches))) as pool:
            out = pool.map(_call_batch, batches, chunksize=1)
        res = [r for b in out for r in b]
        if len(res) != len(items):
            raise MachineryError("batched map lost results: %d of %d" % (len(res), len(items)))
        for r in res:
            if isinstance(r, dict) and "__worker_error__" in r:
                raise MachineryError("worker failed:\n" + r["__worker_error__"])
        # an item without result is run once more in a child of its own before the verdict stands (a batch child that is starved on
        # a loaded machine must not be mistaken for a parse that does not return; a real hang fails the second time as well)
        failed = [i for i, r in enumerate(res) if isinstance(r, dict) and ("__timeout__" in r or "__died__" in r)]
        if 0 < len(failed) <= 32:
            res2 = pmap(fn, [items[i] for i in failed], procs=procs, timeout=timeout)
            for i, r in zip(failed, res2):
                res[i] = r
        return res
    if procs <= 1:
        res = [_call(x) for x in items]
    else:
        ctx = mp.get_context("fork")
        cs = chunksize or max(1, len(items) // (procs * 8))
        with ctx.Pool(procs) as pool:
            res = pool.map(_call, items, chunksize=cs)
    for r in res:
        if isinstance(r, dict) and "__worker_error__" in r:
            raise MachineryError("worker failed:\n" + r["__worker_error__"])
    return res


class Check:
    def __init__(self, prop, level, tier=None):
        self.prop = prop
        self.level = level
        self.tier = tier or common.tier()
        self.seed = common.seed()
        self.timer = common.Timer()
        self.violations = []      # dicts: sig, what, replay(dict)
        self.known_hits = {}      # finding id -> count
        self.notes = []
        self.cov = {"evaluations": 0, "distinct_nontrivial": 0, "rule": "", "samples": [],
                    "states": 0, "transitions": 0, "traces_validated_against_impl": 0}
        self.assumptions = []
        self.kf = load_known_findings()
        self._distinct = set()
        self.work = common.workdir(prop + "_" + self.tier)
        # share of the extended catalogue this run draws from (see mbt/catalogue.py gen_tla)
        quick_stride = {"C02": 1, "C01": 2, "C10": 2, "C17": 2, "C18": 3, "C19": 4}.get(prop, 6)     # cheap per program -> larger share
        stride = int(os.environ.get("VERIF_CAT_STRIDE_" + self.tier.upper(), str(quick_stride) if self.tier == "quick" else "1"))
        os.environ["VERIF_CAT_STRIDE"] = str(stride)
        os.environ["VERIF_CAT_PHASE"] = str(self.seed % stride)
        self.cov["catalogue"] = {"extended_stride": stride, "phase": self.seed % stride}

    # ------------------------------------------------------------------ accounting
    def phase(self, name):
        now = self.timer.s()
        self.cov.setdefault("phases_s", {})[name] = round(now - getattr(self, "_last", 0.0), 1)
        self._last = now

    def add_tlc(self, r):
        self.cov["states"] += r.distinct
        self.cov["transitions"] += r.generated

    def count(self, n=1):
        self.cov["evaluations"] += n

    def distinct(self, key):
        self._distinct.add(key)

    def sample(self, s, cap=4):
        if len(self.cov["samples"]) < cap:
            self.cov["samples"].append(s)

    def note(self, s):
        self.notes.append(s)
        print("NOTE " + s)

    # ------------------------------------------------------------------ verdicts
    def violation(self, sig, what, replay):
        """Report one violation of the property (deduplicated by signature for printing)."""
        for e in self.kf:
            if kf_match(e, self.prop, sig):
                self.known_hits[e["id"]] = self.known_hits.get(e["id"], 0) + 1
                return False
        self.violations.append({"sig": sig, "what": what, "replay": replay})
        return True

    def finish(self, explanation=None):
        os.makedirs(common.EVID, exist_ok=True)
        os.makedirs(os.path.join(common.REPLAYS, self.prop), exist_ok=True)
        self.cov["distinct_nontrivial"] = len(self._distinct) if self._distinct else self.cov["distinct_nontrivial"]
        for e in self.kf:
            if e.get("property") == self.prop and e.get("status") == "open":
                n = self.known_hits.get(e["id"], 0)
                if n:
                    print("KNOWN-FINDING: property=%s %s [%s, %d case(s) this run]" % (self.prop, e["what"], e["id"], n))
        printed = set()
        nviol = 0
        for v in self.violations:
            key = json.dumps(v["sig"], sort_keys=True)
            if key in printed:
                continue
            printed.add(key)
            nviol += 1
            if nviol > 20:
                continue
            path = os.path.join(common.REPLAYS, self.prop, common.sha(key + json.dumps(v["replay"], sort_keys=True, default=str)) + ".json")
            with open(path, "w") as f:
                json.dump({"property": self.prop, "sig": v["sig"], "what": v["what"], "replay": v["replay"]}, f, indent=1, default=str)
            print("VIOLATION property=%s replay=%s" % (self.prop, path))
            print("  " + v["what"][:300].replace("\n", "\n  "))
        cov = dict(self.cov)
        if explanation:
            cov["explanation"] = explanation
        cov["known_findings_hit"] = self.known_hits
        cov["violations_total_cases"] = len(self.violations)
        if self.notes:
            cov["notes"] = self.notes[:50]
        ev = {"property_id": self.prop, "tier": self.tier, "seed": self.seed, "level": self.level,
              "coverage": cov, "assumptions": self.assumptions, "wall_s": self.timer.s(), "violations": nviol}
        with open(os.path.join(common.EVID, self.prop + ".json"), "w") as f:
            json.dump(ev, f, indent=1, default=str)
        print("%s %s: evaluations=%d distinct=%d states=%d traces=%d violations=%d known=%s wall=%.1fs" % (
            self.prop, self.tier, cov["evaluations"], cov["distinct_nontrivial"], cov["states"],
            cov["traces_validated_against_impl"], nviol, dict(self.known_hits), self.timer.s()))
        return 1 if nviol else 0
