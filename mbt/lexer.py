"""Independent Fortran lexer and the C02 normaliser (DESIGN.md 3.4 `toks`, `norm`).

Nothing here imports fparser.  `toks(stmt_text)` splits ONE logical statement (no
continuation marks, no comments) into tokens; `norm(tokens)` applies exactly the documented
canonicalisations of property C02 so that source and regenerated text can be compared
token for token.
"""
import re

_TOK = re.compile(
    r"""
    (?P<str>(?:[A-Za-z_]\w*_)?'(?:[^']|'')*'|(?:[A-Za-z_]\w*_)?"(?:[^"]|"")*")
  | (?P<boz>[bBoOzZxX](?:'[0-9a-fA-F]*'|"[0-9a-fA-F]*"))
  | (?P<dot>\.[A-Za-z]+\.)
  | (?P<num>\d+(?:\.(?![A-Za-z]+\.)\d*)?(?:[eEdDqQ][+-]?\d+)?(?:_\w+)?|\.\d+(?:[eEdDqQ][+-]?\d+)?(?:_\w+)?)
  | (?P<name>[A-Za-z_$]\w*)
  | (?P<op>\*\*|//|==|/=|<=|>=|=>|::)
  | (?P<sym>\S)
    """,
    re.X,
)

COMPOUND = {
    "endif": ["end", "if"], "enddo": ["end", "do"], "elseif": ["else", "if"], "goto": ["go", "to"],
    "endselect": ["end", "select"], "selectcase": ["select", "case"], "selecttype": ["select", "type"],
    "endwhere": ["end", "where"], "elsewhere": ["else", "where"], "endforall": ["end", "forall"],
    "doubleprecision": ["double", "precision"], "endprogram": ["end", "program"],
    "endsubroutine": ["end", "subroutine"], "endfunction": ["end", "function"], "endmodule": ["end", "module"],
    "endsubmodule": ["end", "submodule"], "endtype": ["end", "type"], "endinterface": ["end", "interface"],
    "endblock": ["end", "block"], "endblockdata": ["end", "block", "data"], "blockdata": ["block", "data"],
    "endassociate": ["end", "associate"], "endcritical": ["end", "critical"], "endenum": ["end", "enum"],
    "inout": ["in", "out"], "endfile": ["end", "file"], "implicitnone": ["implicit", "none"],
    "doconcurrent": ["do", "concurrent"], "errorstop": ["error", "stop"], "syncall": ["sync", "all"],
    "typeis": ["type", "is"], "classis": ["class", "is"], "classdefault": ["class", "default"],
    "casedefault": ["case", "default"], "dowhile": ["do", "while"],
}

# words fparser may print in a different case (statement keywords, specifiers, attribute
# words, intrinsic procedure names used by the catalogue).  Any other identifier is a user
# name and must be reproduced character for character.
KEYWORDS = set("""
abstract access action advance all allocatable allocate assign assignment associate asynchronous backspace bind blank
block blockdata call case character class close codimension common complex concurrent contains contiguous continue critical
cycle data deallocate decimal default deferred delim dimension direct do double elemental else elseif elsewhere encoding end endfile
enddo endif entry enum enumerator eor equivalence err errmsg error exist exit extends external file final flush fmt forall form format
formatted function generic go goto id if implicit import impure in include inout inquire integer intent interface intrinsic
iolength iomsg iostat is kind len logical module mold name named namelist newunit nextrec nml non_intrinsic non_overridable none nopass
nullify number only open opened operator optional out pad parameter pass pause pending pointer pos position precision print
private procedure program protected public pure read readwrite real rec recl recursive result return rewind round save select
sequence sequential sign size source stat status stop stream submodule subroutine sync target then to type unformatted unit use value volatile
wait where while write c
sin cos tan abs merge real cmplx null size trim adjustl repeat mod int nint max min reshape index
""".split())
# the intrinsic procedures of Fortran 2003/2008 (generic and specific names, written down from the
# standards, not read from fparser): fparser2 prints a recognised intrinsic name in upper case
KEYWORDS |= set("""
abs achar acos acosh adjustl adjustr aimag aint all allocated anint any asin asinh associated atan atan2 atanh
bessel_j0 bessel_j1 bessel_jn bessel_y0 bessel_y1 bessel_yn bge bgt ble blt bit_size btest ceiling char cmplx
command_argument_count conjg cos cosh count cpu_time cshift date_and_time dble digits dim dot_product dprod dshiftl dshiftr
eoshift epsilon erf erfc erfc_scaled execute_command_line exp exponent extends_type_of findloc floor fraction gamma
get_command get_command_argument get_environment_variable huge hypot iachar iall iand iany ibclr ibits ibset ichar ieor
image_index index int ior iparity is_contiguous is_iostat_end is_iostat_eor ishft ishftc kind lbound lcobound leadz len len_trim
lge lgt lle llt log log_gamma log10 logical maskl maskr matmul max maxexponent maxloc maxval merge merge_bits min minexponent
minloc minval mod modulo move_alloc mvbits nearest new_line nint norm2 not null num_images pack parity popcnt poppar
precision present product radix random_number random_seed range real repeat reshape rrspacing same_type_as scale scan
selected_char_kind selected_int_kind selected_real_kind set_exponent shape shifta shiftl shiftr sign sin sinh size spacing
spread sqrt storage_size sum system_clock tan tanh this_image tiny trailz transfer transpose trim ubound ucobound unpack verify
alog alog10 amax0 amax1 amin0 amin1 amod cabs ccos cexp clog csin csqrt dabs dacos dasin datan datan2 dcos dcosh ddim dexp
dint dlog dlog10 dmax1 dmin1 dmod dnint dsign dsin dsinh dsqrt dtan dtanh float iabs idim idint idnint ifix isign max0 max1 min0 min1 sngl
c_associated c_f_pointer c_f_procpointer c_funloc c_loc c_sizeof
""".split())
# note: `c` is the language-binding-spec keyword of BIND(C); `real/size/...` double as intrinsics.

TYPE_HEADS = {"integer", "real", "complex", "logical", "character", "double", "type", "class"}
IO_HEADS = {"read", "write", "open", "close", "inquire", "rewind", "backspace", "endfile", "end", "flush", "wait", "print"}


def toks(text):
    """Tokens of one logical statement: list of (kind, text)."""
    out = []
    for m in _TOK.finditer(text):
        k = m.lastgroup
        out.append((k, m.group()))
    return out


def is_format(tokens):
    i = 0
    if tokens and tokens[0][0] == "num":
        i = 1
    return len(tokens) > i and tokens[i][0] == "name" and tokens[i][1].lower() == "format" and \
        len(tokens) > i + 1 and tokens[i + 1][1] == "("


def norm(tokens):
    """Apply the documented canonicalisations (C02) and return a list of comparable strings."""
    if is_format(tokens):
        # FORMAT: keyword case, blanks and commas are canonicalised; everything else verbatim.
        out = []
        for k, t in tokens:
            if k == "str":
                out.append(t)
            elif t == ",":
                continue
            else:
                out.append(t.lower())
        # token boundaries inside edit descriptors depend on blanks: compare the character stream
        return ["".join(o if o[:1] in "'\"" else o for o in out)]
    # IF (cond) action-stmt: the action statement is canonicalised as a statement of its own
    h = 1 if tokens and tokens[0][0] == "num" else 0
    if len(tokens) > h + 3 and tokens[h][1].lower() == "if" and tokens[h + 1][1] == "(":
        depth = 0
        for j in range(h + 1, len(tokens)):
            if tokens[j][1] in "([":
                depth += 1
            elif tokens[j][1] in ")]":
                depth -= 1
                if depth == 0:
                    break
        rest = tokens[j + 1:]
        if rest and rest[0][0] == "name" and rest[0][1].lower() != "then" and (len(rest) < 2 or rest[1][1] not in ("=", "%", "=>")):
            return norm(tokens[:j + 1]) + norm(rest)
    seq = []
    for k, t in tokens:
        if k == "str":
            seq.append(("str", t))
        elif k in ("num", "boz", "dot"):
            seq.append((k, t.lower()))
        elif k == "name":
            low = t.lower()
            if low in COMPOUND:
                seq.extend(("kw", w) for w in COMPOUND[low])
            elif low in KEYWORDS:
                seq.append(("kw", low))
            else:
                seq.append(("name", t))
        else:
            seq.append((k, t))
    # statement head (after label and construct name)
    i = 0
    if seq and seq[0][0] == "num":
        i = 1
    if len(seq) > i + 1 and seq[i][0] in ("name", "kw") and seq[i + 1][1] == ":" and \
            (len(seq) <= i + 2 or seq[i + 2][1] != ":"):
        i += 2
    head = seq[i][1] if len(seq) > i else ""
    if head == "implicit":
        # letter specifications are printed in upper case (keyword-case canonicalisation)
        seq = [(k, t.lower()) if k == "name" else (k, t) for k, t in seq]
    words = [t for _, t in seq[i:i + 4]]
    out = []
    j = 0
    n = len(seq)
    decl_like = head in TYPE_HEADS or (head == "type" and "is" in words) or head in ("allocate", "procedure", "implicit", "function") \
        or any(w in TYPE_HEADS for w in words)
    io_like = head in IO_HEADS
    callish = head in ("call", "subroutine") or "subroutine" in [t for _, t in seq[i:i + 5]]
    if head == "character":
        seq = _len_first(seq, i)
        n = len(seq)
    depth = 0
    while j < n:
        k, t = seq[j]
        if t in "([":
            depth += 1
        elif t in ")]":
            depth -= 1
        if t == "::" and depth == 0:
            j += 1
            continue
        if t == "::":
            # inside brackets `::` is two subscript colons, which the printer may separate
            out.extend([":", ":"])
            j += 1
            continue
        # explicit KIND= / LEN= / UNIT= keywords are optional in type selectors and I/O control lists
        if k == "kw" and j + 1 < n and seq[j + 1][1] == "=" and j > 0 and seq[j - 1][1] in ("(", ","):
            if (t in ("kind", "len") and decl_like) or (t in ("unit", "fmt") and io_like):
                j += 2
                continue
        # empty dummy-argument / actual-argument parentheses of SUBROUTINE and CALL
        if callish and t == "(" and j + 1 < n and seq[j + 1][1] == ")":
            j += 2
            continue
        out.append(t if k in ("str", "name") else t.lower())
        j += 1
    return out


def _len_first(seq, i):
    """CHARACTER(KIND=k, LEN=n) is printed as CHARACTER(LEN = n, KIND = k): with both keywords present the
    order of the two selectors is part of the KIND=/LEN= canonicalisation."""
    try:
        a = next(j for j in range(i, len(seq)) if seq[j][1] == "(")
    except StopIteration:
        return seq
    if a != i + 1:
        return seq
    depth = 0
    b = None
    commas = []
    for j in range(a, len(seq)):
        t = seq[j][1]
        if t in "([":
            depth += 1
        elif t in ")]":
            depth -= 1
            if depth == 0:
                b = j
                break
        elif t == "," and depth == 1:
            commas.append(j)
    if b is None or len(commas) != 1:
        return seq
    first, second = seq[a + 1:commas[0]], seq[commas[0] + 1:b]
    if len(first) > 1 and len(second) > 1 and first[0][1] == "kind" and first[1][1] == "=" and second[0][1] == "len" and second[1][1] == "=":
        return seq[:a + 1] + second + [seq[commas[0]]] + first + seq[b:]
    return seq


def split_statements(text):
    """Split regenerated free-form text (no continuations inside literals assumed) into
    logical statements: joins `&` continuations, drops comments and blank lines, splits `;`.
    Quote aware.  Used on fparser's output (which never continues lines) and on canonical
    renderings."""
    stmts = []
    cur = ""
    cont = False
    for raw in text.split("\n"):
        line = raw
        # strip comment outside character context
        q = None
        cut = None
        for idx, ch in enumerate(line):
            if q:
                if ch == q:
                    q = None
            elif ch in "'\"":
                q = ch
            elif ch == "!":
                cut = idx
                break
        if cut is not None:
            line = line[:cut]
        s = line.strip()
        if not s:
            continue
        if s.startswith("#"):
            continue
        if cont and s.startswith("&"):
            s = s[1:]
        if s.endswith("&"):
            cur += s[:-1]
            cont = True
            continue
        cur += s
        cont = False
        stmts.append(cur)
        cur = ""
    if cur:
        stmts.append(cur)
    # split on ';' outside character context
    out = []
    for s in stmts:
        q = None
        start = 0
        for idx, ch in enumerate(s):
            if q:
                if ch == q:
                    q = None
            elif ch in "'\"":
                q = ch
            elif ch == ";":
                if s[start:idx].strip():
                    out.append(s[start:idx].strip())
                start = idx + 1
        if s[start:].strip():
            out.append(s[start:].strip())
    return out


def program_tokens(text):
    """Normalised token stream of a whole program text (list of lists, one per statement)."""
    return [norm(toks(s)) for s in split_statements(text)]
