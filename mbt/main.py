"""./check <property> [--tier quick|thorough] [--replay path]"""
import sys, os, argparse, traceback


def main():
    ap = argparse.ArgumentParser()
    ap.add_argument("prop")
    ap.add_argument("--tier", default=None)
    ap.add_argument("--replay", default=None)
    a = ap.parse_args()
    if a.tier:
        os.environ["VERIF_TIER"] = a.tier
    from . import common
    if a.replay:
        # a replay run looks at one stored case: it must not replace the evidence of the last full run
        common.EVID = os.path.join(common.WORK, "evidence_of_replays")
    from .framework import MachineryError
    try:
        from . import registry
        fn = registry.CHECKS.get(a.prop)
        if fn is None:
            print("unknown property %s" % a.prop)
            return 2
        return fn(a.prop, common.tier(), a.replay)
    except MachineryError as e:
        print("MACHINERY-FAILURE %s: %s" % (a.prop, e))
        return 2
    except Exception:  # noqa: BLE001
        traceback.print_exc()
        print("MACHINERY-FAILURE %s: unexpected exception" % a.prop)
        return 2


if __name__ == "__main__":
    sys.exit(main())
