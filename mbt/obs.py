"""Observation workers: drive the real library on one case and return what was observed
(digests only; the replay file keeps the inputs so everything can be recomputed)."""
import copy, os, pickle, re
from . import common, lexer
from . import fp
from .fp import Base, BlockBase, StmtBase, walk


def h(s):
    return common.sha(s)


def children_of(node):
    """Direct Base children of a node (through nested tuples/lists), in order."""
    out = []

    def rec(x):
        if isinstance(x, Base):
            out.append(x)
        elif isinstance(x, (list, tuple)):
            for y in x:
                rec(y)
    kids = node.content if isinstance(node, BlockBase) else getattr(node, "items", ())
    rec(kids)
    return out


def all_nodes(root):
    """Pre-order list of all nodes by following children (independent of utils.walk)."""
    out = []
    stack = [root]
    while stack:
        n = stack.pop()
        out.append(n)
        stack.extend(reversed(children_of(n)))
    return out


def leaf_statements(tree):
    return [n for n in walk(tree) if getattr(n, "item", None) is not None and not isinstance(n, BlockBase)]


def wf(tree):
    """C10: list of well-formedness problems of a parse tree (empty = well formed)."""
    probs = []
    nodes = all_nodes(tree)
    ids = [id(n) for n in nodes]
    if len(set(ids)) != len(ids):
        probs.append("a node object occurs more than once")
    if tree.parent is not None:
        probs.append("root has a parent")
    for n in nodes:
        for c in children_of(n):
            if c.parent is not n:
                probs.append("parent of %s is %s, expected %s" % (type(c).__name__, type(c.parent).__name__, type(n).__name__))
                break
    step = max(1, len(nodes) // 40)
    for n in nodes[::step]:
        try:
            if n.get_root() is not tree:
                probs.append("get_root() from %s is not the root" % type(n).__name__)
                break
        except Exception as e:  # noqa: BLE001
            probs.append("get_root() raised %s" % type(e).__name__)
            break
    w = walk(tree)
    wid = [id(n) for n in w if isinstance(n, Base)]
    if len(set(wid)) != len(wid):
        probs.append("walk() visits a node more than once")
    if set(wid) != set(ids):
        missing = [type(n).__name__ for n in nodes if id(n) not in set(wid)]
        probs.append("walk() misses %d node(s), e.g. %s" % (len(missing), missing[:3]))
    elif wid != ids:
        probs.append("walk() order differs from source order")
    lines = [" ".join(ln.split()) for ln in str(tree).split("\n") if ln.strip()]
    stm = []
    for n in leaf_statements(tree):
        t = n.tofortran() if hasattr(n, "tofortran") else str(n)
        stm.extend(" ".join(x.split()) for x in t.split("\n") if x.strip())
    if stm != lines:
        k = next((i for i, (a, b) in enumerate(zip(stm, lines)) if a != b), min(len(stm), len(lines)))
        probs.append("statements yielded by walk() do not print in the order of str(tree) (first difference at %d: %r vs %r)" % (
            k, stm[k] if k < len(stm) else None, lines[k] if k < len(lines) else None))
    return probs


def tci(text):
    """text lower-cased outside character literals (C17)."""
    out = []
    q = None
    for ch in text:
        if q:
            out.append(ch)
            if ch == q:
                q = None
        else:
            if ch in "'\"":
                q = ch
                out.append(ch)
            else:
                out.append(ch.lower())
    return "".join(out)


def tokens_digest(text):
    try:
        return h(repr(lexer.program_tokens(text)))
    except Exception as e:  # noqa: BLE001
        return "lexfail:" + type(e).__name__


def do_copy(tree, how):
    r = {"how": how, "ok": False, "st": None, "text": None, "disjoint": False, "indep": False, "wf": False, "err": None}
    before = fp.text(tree)
    try:
        if how == "deepcopy":
            t2 = copy.deepcopy(tree)
        elif how == "pickle-fresh":
            # written here, loaded later by a process that never created a parser (mbt/xload.py)
            import tempfile
            d = os.path.join(common.WORK, "tmp")
            os.makedirs(d, exist_ok=True)
            fd, path = tempfile.mkstemp(suffix=".pickle", dir=d)
            with os.fdopen(fd, "wb") as f:
                pickle.dump(tree, f)
            r.update(pending=path, disjoint=True, indep=True)
            return r
        else:
            t2 = pickle.loads(pickle.dumps(tree))
        r["st"] = h(fp.struct(t2))
        r["text"] = h(fp.text(t2))
    except Exception as e:  # noqa: BLE001 - the copy operation (or printing the copy) failed
        r["err"] = "%s: %s" % (type(e).__name__, str(e)[:120])
        return r
    r["ok"] = True
    r["wf_problems"] = wf(t2)
    r["wf"] = not r["wf_problems"]
    a = {id(n) for n in all_nodes(tree)}
    b = {id(n) for n in all_nodes(t2)}
    r["disjoint"] = not (a & b)
    # mutate one leaf of the copy: the original must print as before
    for n in all_nodes(t2):
        if type(n).__name__ == "Name" and hasattr(n, "string"):
            n.string = n.string + "_mut"
            break
    for n in all_nodes(t2):
        if isinstance(n, BlockBase) and n.content:
            n.content.pop()
            break
    r["indep"] = fp.text(tree) == before
    return r


def observe(case):
    """case: id, src, cfgs [(std, ic, pd)], want (set of 'reparse','toks','copy','wf','classes','tables')."""
    want = set(case.get("want", ()))
    res = {"id": case["id"], "src": h(case["src"]), "runs": []}
    if "toks" in want:
        res["toks_src"] = tokens_digest(case["src"])
    classes = set()
    tmpd = None
    if case.get("via") in ("file", "include"):
        # the program read through FortranFileReader, or with its first simple statements moved into a file that is INCLUDEd twice
        import tempfile
        os.makedirs(os.path.join(common.WORK, "tmp"), exist_ok=True)
        tmpd = tempfile.mkdtemp(prefix="via", dir=os.path.join(common.WORK, "tmp"))
        for fn, txt in case.get("files", {}).items():
            with open(os.path.join(tmpd, fn), "w") as f:
                f.write(txt)
    for (std, ic, pd) in case["cfgs"]:
        P = fp.create(std)
        if tmpd is not None:
            try:
                if case["via"] == "file":
                    with open(os.path.join(tmpd, "main.f90"), "w") as f:
                        f.write(case["src"])
                    rd = fp.FortranFileReader(os.path.join(tmpd, "main.f90"), ignore_comments=ic, process_directives=pd, include_dirs=[tmpd])
                else:
                    rd = fp.FortranStringReader(case["src"], ignore_comments=ic, process_directives=pd, include_dirs=[tmpd])
                o, t = fp.parse(P, rd)
            except BaseException as e:  # noqa: BLE001
                if isinstance(e, KeyboardInterrupt):
                    raise
                o, t = fp.outcome_of_exception(e), None
        else:
            o, t = fp.parse(P, case["src"], ignore_comments=ic, process_directives=pd, **case.get("rkw", {}))
        run = {"cfg": (std, ic, pd), "o": o}
        if o["res"] == "ok":
            s1 = fp.text(t)
            if fp.text(t) != s1:
                run["o"] = dict(o, res="esc", type="ImpurePrint", site="str(tree)", via="", msg="printing the same tree twice gives different text")
            run["st"] = h(fp.struct(t))
            run["sci"] = h(fp.struct(t, ci=True))
            run["text"] = h(s1)
            run["tci"] = h(tci(s1))
            if "keeptext" in want:
                run["text_full"] = s1
            if "toks" in want:
                run["toks_out"] = tokens_digest(s1)
            if "wf" in want:
                run["wf"] = wf(t)
            if "classes" in want:
                classes.update(fp.node_classes(t))
            if "tables" in want:
                run["tables"] = fp.tables()
                run["scope"] = fp.scope()
            if "copy" in want:
                # a tree is used before it is copied: walk it and ask some nodes for their root and parent
                for n_ in all_nodes(t)[:: max(1, len(all_nodes(t)) // 7)]:
                    if hasattr(n_, "get_root"):
                        n_.get_root()
                        getattr(n_, "parent", None)
                wf(t)
                run["copies"] = [do_copy(t, "deepcopy"), do_copy(t, "pickle"), do_copy(t, "pickle-fresh")]
            if "reparse" in want:
                o2, t2 = fp.parse(fp.create(std), s1, ignore_comments=ic, process_directives=pd)
                rr = {"o": o2}
                if o2["res"] == "ok":
                    s2 = fp.text(t2)
                    rr.update(st=h(fp.struct(t2)), sci=h(fp.struct(t2, ci=True)), text=h(s2), tci=h(tci(s2)))
                    if "wf" in want:
                        rr["wf"] = wf(t2)
                run["re"] = rr
        res["runs"].append(run)
    if "classes" in want:
        res["classes"] = sorted(classes)
    if tmpd is not None:
        import shutil
        shutil.rmtree(tmpd, ignore_errors=True)
    return res


# --------------------------------------------------------------------------- generic parse jobs
def leaves_of(tree):
    """Leaves in walk order: ('c'|'d', text) comment/directive, ('p', text) preprocessor node,
    ('s', printed statement) anything else that came from a reader item."""
    out = []
    for n in leaf_statements(tree):
        cn = type(n).__name__
        if cn == "Comment":
            if str(n).strip() == "":
                continue
            out.append(("c", str(n)))
        elif cn == "Directive":
            out.append(("d", str(n)))
        elif cn.startswith("Cpp_"):
            out.append(("p", str(n)))
        else:
            t = n.tofortran() if hasattr(n, "tofortran") else str(n)
            out.append(("s", " ".join(t.split())))
    return out


def strip_nodes(tree, pred):
    """Remove (in place) the children of block nodes for which pred(node) holds."""
    for n in all_nodes(tree):
        if isinstance(n, BlockBase):
            n.content[:] = [c for c in n.content if not (isinstance(c, Base) and pred(c))]
    # containers that only existed to hold the removed nodes (e.g. Specification_Part(Implicit_Part(#line)))
    changed = True
    while changed:
        changed = False
        for n in all_nodes(tree):
            if isinstance(n, BlockBase):
                keep = [c for c in n.content if not (isinstance(c, BlockBase) and not c.content)]
                if len(keep) != len(n.content):
                    n.content[:] = keep
                    changed = True
    return tree


def merge_component_parts(tree):
    n_merged = 0
    for n in all_nodes(tree):
        if isinstance(n, BlockBase):
            out = []
            for c in n.content:
                if out and type(c).__name__ == "Component_Part" and type(out[-1]).__name__ == "Component_Part":
                    out[-1].content.extend(c.content)
                    n_merged += 1
                else:
                    out.append(c)
            n.content[:] = out
    return n_merged


def run_jobs(case):
    """case: id, jobs [ {name, src, std, ic, pd, omp, want, files, reader, dirs} ] -> {name: result}"""
    import os, shutil, tempfile
    res = {"id": case["id"], "jobs": {}}
    case_tmp = None      # one directory for all jobs of a case: the same paths hold other files (or none) from job to job
    for job in case["jobs"]:
        want = set(job.get("want", ()))
        tmp = None
        try:
            kw = dict(ignore_comments=job.get("ic", True), process_directives=job.get("pd", False))
            if job.get("omp"):
                kw["include_omp_conditional_lines"] = True
            src = job["src"]
            if job.get("files") is not None:
                if case_tmp is None:
                    case_tmp = tempfile.mkdtemp(prefix="inc", dir=os.path.join(common.WORK, "tmp"))
                tmp = case_tmp
                for x in os.listdir(tmp):
                    shutil.rmtree(os.path.join(tmp, x), ignore_errors=True) if os.path.isdir(os.path.join(tmp, x)) else os.remove(os.path.join(tmp, x))
                dirs = []
                for dname, files in job["files"].items():
                    dd = os.path.join(tmp, dname)
                    os.makedirs(dd, exist_ok=True)
                    for fn, txt in files.items():
                        os.makedirs(os.path.dirname(os.path.join(dd, fn)), exist_ok=True)
                        with open(os.path.join(dd, fn), "w") as f:
                            f.write(txt)
                for dname in job.get("dirs", list(job["files"].keys())):
                    dirs.append(os.path.join(tmp, dname))
                kw["include_dirs"] = dirs
            P = fp.create(job["std"])
            try:
                if job.get("reader") == "file":
                    if tmp is None:
                        if case_tmp is None:
                            case_tmp = tempfile.mkdtemp(prefix="inc", dir=os.path.join(common.WORK, "tmp"))
                        tmp = case_tmp
                    path = os.path.join(tmp, "main.f90")
                    with open(path, "w") as f:
                        f.write(src)
                    rd = fp.FortranFileReader(path, **kw)
                else:
                    rd = fp.FortranStringReader(src, **kw)
                if job.get("fmt") is not None:
                    rd.set_format(fp.FortranFormat(*job["fmt"]))
                o, t = fp.parse(P, rd)
            except BaseException as e:  # noqa: BLE001
                if isinstance(e, KeyboardInterrupt):
                    raise
                o, t = fp.outcome_of_exception(e), None
            r = {"o": o, "src": h(src)}
            if "scope" in want:
                r["scope"] = fp.scope()
                r["tables"] = fp.table_names()
            if t is not None:
                r["st"] = h(fp.struct(t))
                r["sci"] = h(fp.struct(t, ci=True))
                s1 = fp.text(t)
                r["text"] = h(s1)
                r["tci"] = h(tci(s1))
                if "textfull" in want:
                    r["textfull"] = s1
                if "leaves" in want:
                    r["leaves"] = leaves_of(t)
                if "stripcpp" in want:
                    strip_nodes(t, lambda c: type(c).__name__.startswith("Cpp_"))
                    r["st_nocpp"] = h(fp.struct(t))
                    # the same with neighbouring Component_Part nodes merged (known finding KF-C14-2 is exactly that split)
                    nsplit = merge_component_parts(t)
                    r["st_nocpp_merged"] = h(fp.struct(t)) if nsplit else r["st_nocpp"]
            res["jobs"][job["name"]] = r
        finally:
            pass
    if case_tmp:
        shutil.rmtree(case_tmp, ignore_errors=True)
    return res
