"""Render behaviours of Perturb.tla: a derivation plus edits -> source text (and include files),
together with the harness-side view of what the specification predicted."""
import re
from . import render, lexer

CMT = {1: "! plain comment", 2: "! it's", 3: "! say \"hi\"", 4: "! a ! b", 5: "! ends with &",
       6: "!$omp parallel do", 7: "!dir$ ivdep", 8: "!$ y = 2",
       # an ordinary comment that mentions directive spellings in its text
       9: "! see !dir$ ivdep, c$omp and *$ below"}
CPP = {1: ["#ifdef FOO"], 2: ["#ifndef FOO"], 3: ["#if defined(A) && B > 2"], 4: ["#elif X"], 5: ["#else"], 6: ["#endif"],
       7: ['#include "file.h"'], 8: ["#define FOO(a) a + 1"], 9: ["#undef FOO"], 10: ['#line 10 "f.f90"'],
       11: ["#error bad thing"], 12: ["#define BAR \\", "   1 + 2"], 13: ["#if defined(A) && \\", "    defined(B)"],
       14: ["#warning careful"], 15: ["#"], 16: ['# 12 "g.f90"'], 17: ["#  endif"], 18: ["#include <sys.h>"],
       # text after the directive, blanks after the '#'
       19: ["#endif /* FOO */"], 20: ["#else // not FOO"], 21: ["#  ifdef FOO"], 22: ["# define GUARD 1"], 23: ["#endif FOO"],
       24: ['#   include "decl.h"'], 25: ["#define EMPTY"], 26: ["#if 0"], 27: ["#elif defined(X) /* c */"],
       # a ';' inside the payload (quoted)
       28: ['#define SEP ";"'], 29: ['#error "x; y"'],
       # a directive continued over three physical lines
       30: ["#define TRI(a) \\", "   (a) + \\", "   2"]}
AFTER_BREAK = "! after the break"
GARB = {1: ["@@", "x", "y"], 2: ["1", "=", "=", "2"], 3: ["then", "end", "do"], 4: ["@@", "x", "y  ! a trailing comment"], 5: ["then", "end", "do ! it's"],
        # statements cut short: an assignment without its right-hand side, a call without a name
        6: ["total", "(", "1 ) ="], 7: ["call", "(", "x )"],
        # an unbalanced quote in the garbage
        8: ["this", "isn't", "Fortran"],
        # line noise that starts like a preprocessor line (the reader hands it over as a directive; it is none): one line only
        9: ["#$%@ nonsense"], 10: ["#pragma once"]}


def cpp_norm(text):
    t = text.replace("\\\n", " ")
    t = " ".join(t.split())
    t = re.sub(r"^#\s+(?=[a-z])", "#", t)
    return t


def split_first(s):
    """Split a logical statement line for a continuation: (head, tail) at the first token
    boundary after the first free token (label and construct name stay on the first line)."""
    lab = ("%d " % s["label"]) if s["label"] else ""
    cn = (s["cname"] + ": ") if s["cname"] else ""
    toks = layout_tokens(s["text"])
    if len(toks) < 2:
        return None
    k = 1
    return lab + cn + join_tokens(toks[:k]), join_tokens(toks[k:])


def long_string_index(toks):
    """index of the first character-literal token with at least four characters between the quotes (no doubled quote next to the split)"""
    for i, (t, sp) in enumerate(toks):
        if t[:1] in "'\"" and len(t) >= 6:
            m = len(t) // 2
            if t[m - 1] not in "'\"" and t[m] not in "'\"":
                return i
    return None


def split_in_string(s):
    """Split a statement inside its first long character literal: (head ending inside the literal, tail starting inside it)."""
    lab = ("%d " % s["label"]) if s["label"] else ""
    cn = (s["cname"] + ": ") if s["cname"] else ""
    toks = layout_tokens(s["text"])
    i = long_string_index(toks)
    t, sp = toks[i]
    m = len(t) // 2
    head = lab + cn + join_tokens(toks[:i]) + (sp if i else "") + t[:m]
    tail = t[m:] + "".join(sp2 + t2 for t2, sp2 in toks[i + 1:])
    return head, tail


def split_after_string(s):
    """Split a statement at the token boundary after its first long character literal (before it when the literal is the last token)."""
    lab = ("%d " % s["label"]) if s["label"] else ""
    cn = (s["cname"] + ": ") if s["cname"] else ""
    toks = layout_tokens(s["text"])
    i = long_string_index(toks)
    k = i + 1 if i + 1 < len(toks) else i
    return lab + cn + join_tokens(toks[:k]), join_tokens(toks[k:])


def layout_tokens(text):
    """Tokens of a statement as (text, blank_before) keeping the original spacing, with `(/` and `/)` merged."""
    out = []
    pos = 0
    for m in lexer._TOK.finditer(text):
        out.append((m.group(), text[pos:m.start()]))
        pos = m.end()
    merged = []
    for t, sp in out:
        if merged and sp == "" and ((merged[-1][0] == "(" and t == "/") or (merged[-1][0] == "/" and t == ")")):
            merged[-1] = (merged[-1][0] + t, merged[-1][1])
        else:
            merged.append((t, sp))
    return merged


def join_tokens(toks):
    return "".join((sp if i else "") + t for i, (t, sp) in enumerate(toks))


def layout(out, ed):
    """-> dict(text, files {name: text}, comments [expected comment texts in source order],
               cpp [expected directive payloads], lines_of {stmt idx (1-based): last physical line})"""
    stmts = render_stmts(out)
    n = len(stmts)
    pre = {i: [] for i in range(1, n + 2)}      # lines inserted before statement i
    trail = {}
    cont = {}
    strcont = {}
    aftstr = {}
    garb = None
    sent = {}
    incs = []
    brk = {}
    joins = set()
    joincmt = {}
    case = 0
    for j, e in enumerate(ed, 1):
        if e["t"] == "brk":
            brk[e["pos"]] = (e["a"], e["b"])
        elif e["t"] == "join":
            joins.add(e["pos"])
            if e.get("a"):
                joincmt[e["pos"]] = e["a"]
        elif e["t"] == "case":
            case = e["a"]
        t = e["t"]
        if t == "cmt":
            if e["a"] == 1:
                pre[e["pos"]].append(("cmt", j, [CMT[e["b"]]]))
            elif e["a"] == 2:
                trail[e["pos"]] = (j, CMT[e["b"]])
            elif e["a"] == 3:
                cont[e["pos"]] = (j, CMT[e["b"]])
            elif e["a"] == 5:
                aftstr[e["pos"]] = (j, CMT[e["b"]])
            else:
                strcont[e["pos"]] = (j, CMT[e["b"]])
        elif t == "cpp":
            pre[e["pos"]].append(("cpp", j, CPP[e["a"]] + (CPP[e["b"]] if e.get("b") else [])))
        elif t == "garb":
            garb = e
        elif t == "sent":
            sent[e["pos"]] = e["a"]
        elif t == "inc":
            incs.append((e["pos"], e["a"]))
    phys = []          # (stmt index or 0, line text)
    last_line = {}
    for i in range(1, n + 2):
        s = stmts[i - 1] if i <= n else None
        ind = ("  " * s["d"]) if s else ""
        for kind, j, ls in pre[i]:
            for l in ls:
                phys.append((0, (ind + l) if kind == "cmt" else l))
        if s is None:
            break
        if garb is not None and garb["pos"] == i:
            toks = GARB[garb["a"]]
            extra = garb["b"]
            parts = [[toks[0]], toks[1:]] if extra == 1 else ([[toks[0]], [toks[1]], toks[2:]] if extra == 2 else [toks])
            for pi, part in enumerate(parts):
                phys.append((i, ind + " ".join(part) + (" &" if pi < len(parts) - 1 else "")))
        elif i in cont:
            sp = split_first(s)
            if sp is None:
                raise ValueError("statement %d cannot be continued: %r" % (i, s["text"]))
            phys.append((i, ind + sp[0] + " &"))
            phys.append((i, ind + "  " + cont[i][1]))
            phys.append((i, ind + "    " + sp[1]))
        elif i in aftstr:
            # continued directly after the first character literal, with a trailing comment on that line
            head, tail = split_after_string(s)
            phys.append((i, ind + head + " &  " + aftstr[i][1]))
            phys.append((i, ind + "    " + tail + "  " + (trail[i][1] if i in trail else AFTER_BREAK)))
        elif i in strcont:
            # the comment line sits between the two halves of a continued character literal (F2008 3.3.2.4)
            head, tail = split_in_string(s)
            phys.append((i, ind + head + "&"))
            phys.append((i, ind + "  " + strcont[i][1]))
            phys.append((i, ind + "    &" + tail))
        elif i in sent:
            if sent[i] >= 1:
                sp = split_first(s)
                phys.append((i, "!$ " + ind + sp[0] + " &" + ("  ! trailing note" if sent[i] == 6 else "")))
                if sent[i] == 2:
                    phys.append((i, ind + "  ! comment between conditional lines"))
                elif sent[i] == 3:
                    phys.append((i, ""))
                if sent[i] == 4:
                    phys.append((i, "!$" + sp[1]))
                elif sent[i] == 5:
                    phys.append((i, "!$&" + sp[1]))
                else:
                    phys.append((i, "!$ " + ind + "  & " + sp[1]))
            else:
                phys.append((i, "!$ " + ind + render.stmt_line(s, indent=False)))
        elif i in brk:
            where, var = brk[i]
            parts = split_at(s, where)
            first = ind + parts[0] + (" &" if var != 0 or True else "&")
            if var == 2:
                first += " ! c'mt &"
            phys.append((i, first))
            if var == 3:
                phys.append((i, ""))
            if var in (4, 5):
                phys.append((i, ind + "  ! between \"lines\" &"))
            if var == 6:
                phys.append((i, "&" + parts[1]))         # the continuation line starts with its & in column 1
            else:
                phys.append((i, ind + ("    & " if var in (1, 5) else "      ") + parts[1]))
        else:
            line = ind + render.stmt_line(s, indent=False)
            if i in trail:
                line += "  " + trail[i][1]
            if (i - 1) in joins and phys:
                # joined to the previous statement with `;`
                pi, pl = phys[-1]
                phys[-1] = (i, pl + "; " + render.stmt_line(s, indent=False) + (("  " + CMT[joincmt[i - 1]]) if joincmt.get(i - 1) else ""))
            else:
                phys.append((i, line))
        last_line[i] = len(phys)
    if case:
        # a character literal continued over the line end stays a literal on the next line
        q = None
        out_ = []
        for i, l in phys:
            l2, q = recase(l, case, q)
            out_.append((i, l2))
        phys = out_
    return {"phys": phys, "last_line": last_line, "stmts": stmts, "incs": incs}


def recase(line, style, q=None):
    """Change letter case outside character literals and comments (style 1 upper, 2 capitalised words).
    q: the quote character of a literal continued from the previous line; returns (text, open quote at the line end)."""
    out = []
    incmt = False
    if q and line.lstrip().startswith("!"):
        return line, q                     # a comment line between the two halves of a continued literal
    word_start = True
    for ch in line:
        if incmt:
            out.append(ch)
            continue
        if q:
            out.append(ch)
            if ch == q:
                q = None
            continue
        if ch in "'\"":
            q = ch
            out.append(ch)
            word_start = True
            continue
        if ch == "!":
            incmt = True
            out.append(ch)
            continue
        if ch.isalpha():
            out.append(ch.upper() if (style == 1 or word_start) else ch.lower())
            word_start = False
        else:
            out.append(ch)
            word_start = not (ch.isdigit() or ch == "_")
    return "".join(out), (q if q and "".join(out).rstrip().endswith("&") else None)


def split_at(s, where):
    """Split a statement line at a token boundary about where/8 of the way through (every boundary of a statement of up to
    eight tokens is reached by where = 1..7)."""
    lab = ("%d " % s["label"]) if s["label"] else ""
    cn = (s["cname"] + ": ") if s["cname"] else ""
    toks = layout_tokens(s["text"])
    if where in (8, 9) and (lab or cn):
        # inside the prefix of the statement: 8 behind its first part (the label: '10 &' / 'c1: do ...'; without a label the
        # construct name: 'c1 &' / ': do ...'), 9 behind the whole prefix ('10 c1: &' / 'do ...')
        if where == 9:
            return (lab + cn).rstrip(), join_tokens(toks)
        if lab:
            return lab.rstrip(), cn + join_tokens(toks)
        return s["cname"], ": " + join_tokens(toks)
    if where in (8, 9):
        where = 1
    k = max(1, min(len(toks) - 1, (len(toks) * where + 7) // 8))
    return lab + cn + join_tokens(toks[:k]), join_tokens(toks[k:])


def render_stmts(out):
    return render.stmts_of(out)


def text_of(r):
    return "\n".join(l for _, l in r["phys"]) + "\n"


def expected_leaves(beh, stmts):
    """From the specification's `leaves` (<<"s", i>> / <<"e", j>>) to comparable tuples."""
    exp = []
    for kind, idx in beh["leaves"]:
        if kind == "s":
            exp.append(("s", idx))
        else:
            e = beh["ed"][idx - 1]
            if e["t"] == "cmt":
                exp.append(("c", CMT[e["b"]], e["a"], e["b"]))
                if e["a"] == 5 and not any(x["t"] == "cmt" and x["a"] == 2 and x["pos"] == e["pos"] for x in beh["ed"]):
                    exp.append(("c", AFTER_BREAK, 5, 1))      # place 5 comes with a second trailing comment on the next line
            else:
                exp.append(("p", cpp_norm("\n".join(CPP[e["a"]])), e["a"]))
                if e.get("b"):
                    exp.append(("p", cpp_norm("\n".join(CPP[e["b"]])), e["b"]))
    return exp


INC_STYLES = 6


def inc_name(k, style=0, base="inc"):
    """(file name, INCLUDE line text, text fparser prints for the unresolved line) of the k-th include file.
    Styles: plain, double quotes, a name holding the other quote character, a sub-directory, blanks, dots and dashes."""
    n = "%s%d.inc" % (base, k)
    if style == 1:
        return n, 'include "%s"' % n, "INCLUDE '%s'" % n
    if style == 2:
        n = "o'%s" % n
        return n, 'include "%s"' % n, None          # printed form of the unresolved line is not claimed for this name
    if style == 3:
        n = "sub/%s" % n
    elif style == 4:
        n = "my %s" % n
    elif style == 5:
        n = "%s-%d.v2.INC" % (base, k)
    return n, "include '%s'" % n, "INCLUDE '%s'" % n


def split_includes(phys_by_stmt, stmts, incs, base="inc", style=0, lead="  "):
    """Move statement ranges into include files.  phys_by_stmt: list of physical lines per statement (1-based idx).
    Returns (main_lines, files{name: text})."""
    files = {}
    # sort: outer ranges first
    incs = sorted(incs, key=lambda ab: (ab[0], -ab[1]))
    names = {}
    lines_of = {}
    for k, (a, b) in enumerate(incs):
        names[(a, b)], lines_of[(a, b)], _ = inc_name(k + 1, style, base)

    def emit(lo, hi, ranges, indent):
        lines = []
        i = lo
        while i <= hi:
            r = next((ab for ab in ranges if ab[0] == i), None)
            if r is not None:
                inner = [ab for ab in ranges if ab != r and r[0] <= ab[0] and ab[1] <= r[1]]
                files[names[r]] = "\n".join((("  " + l) if lead == "  " else l) for l in emit(r[0], r[1], inner, indent)) + "\n"
                lines.append(lead + lines_of[r])
                i = r[1] + 1
            else:
                lines.extend(phys_by_stmt[i])
                i += 1
        return lines

    top = [ab for ab in incs if not any(o != ab and o[0] <= ab[0] and ab[1] <= o[1] for o in incs)]
    nested = [ab for ab in incs if ab not in top]
    main = emit(1, len(stmts), top + nested, "")
    files["__nested__"] = sorted(names[ab] for ab in nested)
    return main, files
