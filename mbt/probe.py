"""Harness-side wrappers that record the parser <-> reader <-> symbol-table protocol
(DESIGN.md 3.3).  Nothing in /repo is touched; the wrappers are installed on class attributes
when record() is first used and are pass-through.  Events are emitted at return (and on the
exception path) so that one event = one completed call = one action of ParseProto.tla."""
import re
from . import fp
from .fp import readfortran, two_utils, symbol_table, FortranSyntaxError

EV = []
_ids = {}
_keep = []
_cls = {}
_names = {}
_depth = [0]
_pdepth = [0]
_installed = [False]
_on = [False]


def iid(o):
    k = id(o)
    if k not in _ids:
        _ids[k] = len(_ids) + 1
        _keep.append(o)
    return _ids[k]


def cid(c):
    if c not in _cls:
        _cls[c] = len(_cls) + 1
    return _cls[c]


def nid(n):
    n = str(n).lower()
    if n not in _names:
        _names[n] = len(_names) + 1
    return _names[n]


def depth_of(st):
    d = 0
    c = st._current_scope
    while c is not None:
        d += 1
        c = c.parent
    return d


def flat(content):
    out = []
    for o in content:
        if isinstance(o, two_utils.BlockBase):
            out += flat(o.content)
        elif getattr(o, "item", None) is not None:
            out.append(iid(o.item))
        else:
            out.append(0)
    return out


def install():
    if _installed[0]:
        return
    _installed[0] = True
    RB = readfortran.FortranReaderBase
    _next, _put = RB.next, RB.put_item

    def next_w(self, ignore_comments=None):
        if not _on[0]:
            return _next(self, ignore_comments)
        _depth[0] += 1
        try:
            it = _next(self, ignore_comments)
        except StopIteration:
            _depth[0] -= 1
            if _depth[0] == 0:
                EV.append({"e": "eof"})
            raise
        except BaseException:
            _depth[0] -= 1
            raise
        _depth[0] -= 1
        if _depth[0] == 0:
            fresh = id(it) not in _ids
            span = getattr(it, "span", (0, 0))
            EV.append({"e": "get", "i": iid(it), "f": fresh, "first": span[0], "last": span[1], "lc": self.linecount,
                       "k": type(it).__name__[0]})
        return it

    def put_w(self, item):
        if not _on[0]:
            return _put(self, item)
        _pdepth[0] += 1
        try:
            r = _put(self, item)
        finally:
            _pdepth[0] -= 1
        if _pdepth[0] == 0:
            EV.append({"e": "put", "i": iid(item)})
        return r
    RB.next = next_w
    RB.put_item = put_w

    _bm = two_utils.BlockBase.match

    def bm_w(startcls, subclasses, endcls, reader, **kw):
        if not _on[0]:
            return _bm(startcls, subclasses, endcls, reader, **kw)
        EV.append({"e": "benter", "c": cid(startcls) if startcls else 0})
        try:
            r = _bm(startcls, subclasses, endcls, reader, **kw)
        except BaseException as e:
            EV.append({"e": "braise", "x": type(e).__name__})
            raise
        if r is None:
            EV.append({"e": "bfail"})
        else:
            EV.append({"e": "bok", "items": flat(r[0])})
        return r
    two_utils.BlockBase.match = staticmethod(bm_w)

    ST = symbol_table.SymbolTables
    _enter, _exit, _remove = ST.enter_scope, ST.exit_scope, ST.remove

    def enter_w(self, name, *a, **k):
        r = _enter(self, name, *a, **k)
        if _on[0]:
            EV.append({"e": "stenter", "n": nid(name), "d": depth_of(self)})
        return r

    def exit_w(self, *a, **k):
        r = _exit(self, *a, **k)
        if _on[0]:
            EV.append({"e": "stexit", "d": depth_of(self)})
        return r

    def remove_w(self, name, *a, **k):
        top = self._current_scope is None
        r = _remove(self, name, *a, **k)
        if _on[0]:
            EV.append({"e": "stremove", "n": nid(name), "top": top})
        return r
    ST.enter_scope, ST.exit_scope, ST.remove = enter_w, exit_w, remove_w

    _pl = readfortran.Line.parse_line

    def pl_w(self, cls, parent_cls):
        if _on[0] and cls not in self.parse_cache:
            EV.append({"e": "compute", "i": iid(self), "c": cid(cls)})
        return _pl(self, cls, parent_cls)
    readfortran.Line.parse_line = pl_w


_LINE = re.compile(r"at line (\d+)")


def record(tid, src, std="f2008", **rkw):
    """Parse src with a freshly created parser and return (events, outcome, tree)."""
    install()
    del EV[:]
    _ids.clear()
    del _keep[:]
    _depth[0] = 0
    _pdepth[0] = 0
    P = fp.create(std)
    rd = fp.reader(src, **rkw)
    _on[0] = True
    try:
        o, t = fp.parse(P, rd)
    finally:
        _on[0] = False
    st = symbol_table.SYMBOL_TABLES
    fin = {"e": "fin", "s": o["res"] if o["res"] in ("ok", "fse") else "esc", "line": o.get("line", 0),
           "d": depth_of(st), "nt": len(st._symbol_tables), "leaves": []}
    if t is not None:
        from . import obs
        fin["leaves"] = [iid(n.item) if id(n.item) in _ids else 0 for n in obs.leaf_statements(t)]
    evs = [{"e": "begin", "t": tid}] + list(EV) + [fin]
    del EV[:]
    return evs, o, t
