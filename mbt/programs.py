"""Generate the program class from Grammar.tla with TLC (DESIGN.md 4.1, 5).

Families:  exh   exhaustive enumeration over a reduced alphabet (seed independent)
           sweep fixed small shapes, every catalogue variant in turn (seed independent)
           sim   TLC -simulate over the full catalogue (uses VERIF_SEED)
"""
import os, json
from . import common, tlc, catalogue, render
from .framework import MachineryError

GEN = os.path.join(common.SPECS, "Catalogue_gen.tla")


def ensure_generated():
    catalogue.gen_tla(GEN)


def _run(check, cfg, **kw):
    r = tlc.run("MCGrammar.tla", cfg, timeout=3000, **kw)
    if not r.ok():
        raise MachineryError("TLC failed on %s: %s %s" % (cfg, r.invariant_violated, r.error))
    if check is not None:
        check.add_tlc(r)
        check.cov.setdefault("tlc_runs", []).append({"cfg": cfg, "generated": r.generated, "distinct": r.distinct,
                                                      "behaviours": len(r.beh), "wall_s": r.wall_s})
    return r.beh


def rich_pick(out):
    """(kind, variant) of the non-default pick of a sweep behaviour, or None."""
    open_labels = set()
    for r in out:
        k, v = r["k"], r["v"]
        if k == "dol":
            open_labels.add(r["l"])
        if k == "s" and v != 1 and r["l"] and r["l"] in open_labels:
            return ("s-terminating-a-do", v)          # the variant as do-term-action-stmt: a context of its own
        if k in ("s", "decl", "use", "format", "comp", "tbind", "enumr", "modproc") and v != 1:
            return (k, v)
        if (k in catalogue.OPEN or k in catalogue.MIDS or k in catalogue.UNIT) and v != 1:
            return (k, v)
    return None


def generate(check, tier, seed, families=("exh", "sweep", "sim"), sim_num=None, sweep_per_variant=None):
    ensure_generated()
    progs = []
    if "exh" in families:
        cfg = "Grammar_exh_quick.cfg" if tier == "quick" else "Grammar_exh_thorough.cfg"
        for b in _run(check, cfg):
            progs.append({"fam": "exh", "out": b["out"], "needs08": b["needs08"]})
    if "sweep" in families:
        per = sweep_per_variant or (2 if tier == "quick" else 1000)
        for cfg in ("Grammar_sweep_exec.cfg", "Grammar_sweep_spec.cfg"):
            seen = {}
            for b in _run(check, cfg):
                rp = rich_pick(b["out"])
                if rp is None:
                    key = ("default", len(b["out"]))
                else:
                    key = rp
                # deterministic order of TLC output is not guaranteed with many workers: sort later
                seen.setdefault(key, []).append(b)
            for key in sorted(seen):
                bs = sorted(seen[key], key=lambda b: json.dumps(b["out"], sort_keys=True))
                # prefer the deepest contexts first, then the shallowest
                bs.sort(key=lambda b: -max(r["d"] for r in b["out"]))
                for b in bs[:per]:
                    progs.append({"fam": "sweep", "out": b["out"], "needs08": b["needs08"]})
    if "units" in families or "exh" in families:
        # every sequence of up to three program units of every kind (headerless main program, block data, submodule ...)
        beh = sorted(_run(check, "Grammar_units.cfg"), key=lambda b: json.dumps(b["out"], sort_keys=True))
        if tier == "quick":
            beh = beh[seed % 5::5]
        for b in beh:
            progs.append({"fam": "units", "out": b["out"], "needs08": b["needs08"]})
    if "units" in families or "exh" in families:
        # every nest of up to four labelled DO loops (own and shared labels, every kind of terminating statement, bodies)
        beh = sorted(_run(check, "Grammar_do.cfg"), key=lambda b: json.dumps(b["out"], sort_keys=True))
        if tier == "quick":
            beh = beh[seed % 4::4]
        for b in beh:
            progs.append({"fam": "do-nests", "out": b["out"], "needs08": b["needs08"]})
    if "sim" in families:
        n = sim_num or (40 if tier == "quick" else 1500)     # per simulation worker
        w = 8
        for b in _run(check, "Grammar_sim.cfg", workers=w, simulate=dict(num=n, depth=150), seed=seed + 1):
            progs.append({"fam": "sim", "out": b["out"], "needs08": b["needs08"]})
    for i, p in enumerate(progs):
        p["id"] = i + 1
        p["stmts"] = render.stmts_of(p["out"])
        p["src"] = render.free_text(p["stmts"])
        p["reorders"] = render.reorders(p["out"])
        if render.needs08(p["out"]) != p["needs08"]:
            raise MachineryError("needs08 of the specification and of the catalogue disagree for %s" % p["src"])
    return progs
