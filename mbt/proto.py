"""Protocol traces: validation against specs/TraceParseProto.tla (TLC) and the Python twin."""
import os, json
from . import common, tlc
from .framework import MachineryError, pmap

PROPERTY_CLAUSES = {"GetFresh": "C12", "GetAgain": "C12", "Eof": "C12", "FinishOk": "C10", "FinishFse": "C09", "Escape": "C06"}
MECHANISM_CLAUSES = {"PutLIFO", "BExitFail", "BExitOk", "BRaiseLeak", "StExit", "MemoOnce"}


def twin(events):
    """Python twin of TraceParseProto.tla -> list of (tid, event index, clause)."""
    rej = []
    tid = 0
    skip = False
    ntr = 0
    k = K = sd = maxline = 0
    frames = []
    tables = set()
    memo = {}
    for idx, ev in enumerate(events, 1):
        e = ev["e"]
        if e == "begin":
            tid = ev["t"]
            skip = False
            ntr += 1
            k = K = sd = maxline = 0
            frames = []
            tables = set()
            memo = {}
            continue
        if skip:
            continue
        bad = None
        if e == "get":
            if ev["f"]:
                if k == K and ev["i"] == K + 1 and ev["first"] <= ev["last"]:
                    k += 1
                    K += 1
                    maxline = max(maxline, ev["last"])
                else:
                    bad = "GetFresh"
            else:
                if k < K and ev["i"] == k + 1:
                    k += 1
                else:
                    bad = "GetAgain"
        elif e == "put":
            if ev["i"] == k and k > 0:
                k -= 1
            else:
                bad = "PutLIFO"
        elif e == "eof":
            if k != K:
                bad = "Eof"
        elif e == "benter":
            frames.append((k, sd))
        elif e == "bfail":
            if frames and frames[-1] == (k, sd):
                frames.pop()
            else:
                bad = "BExitFail"
        elif e == "bok":
            if frames and frames[-1][1] == sd and ev["items"] == list(range(frames[-1][0] + 1, k + 1)):
                frames.pop()
            else:
                bad = "BExitOk"
        elif e == "braise":
            if frames and frames[-1][1] == sd:
                frames.pop()
            else:
                bad = "BRaiseLeak"
        elif e == "stenter":
            if sd == 0:
                tables.add(ev["n"])
            sd += 1
        elif e == "stexit":
            if sd > 0:
                sd -= 1
            else:
                bad = "StExit"
        elif e == "stremove":
            if ev["top"]:
                tables.discard(ev["n"])
        elif e == "compute":
            if ev["c"] in memo.get(ev["i"], ()):
                bad = "MemoOnce"
            else:
                memo.setdefault(ev["i"], set()).add(ev["c"])
        elif e == "fin":
            if ev["s"] == "ok":
                if not (not frames and sd == 0 and ev["d"] == 0 and k == K and ev["leaves"] == list(range(1, K + 1))
                        and len(tables) == ev["nt"]):
                    bad = "FinishOk"
            elif ev["s"] == "fse":
                if not (not frames and sd == 0 and ev["d"] == 0 and not tables and ev["nt"] == 0 and ev["line"] in (maxline, 0)):
                    bad = "FinishFse"
            else:
                bad = "Escape"
        else:
            bad = "unknown-event"
        if bad:
            rej.append((tid, idx, bad))
            skip = True
    return rej, ntr


def _run_shard(job):
    path, name = job
    try:
        r = tlc.run("TraceParseProto.tla", "TraceParseProto.cfg", workers=1, env={"TRACE_FILE": path}, name=name, timeout=3000)
    except tlc.TlcError as e:
        return 0, 0, [], str(e)
    return r.generated, r.distinct, r.tuples, r.error


def validate(check, traces, name="proto"):
    """traces: list of event lists (each starting with a begin event).  Returns [(tid, clause)]."""
    if not traces:
        return []
    total = sum(len(t) for t in traces)
    nsh = max(1, min(common.NCPU, total // 150000 + 1, len(traces)))
    per = (len(traces) + nsh - 1) // nsh
    jobs, chunks = [], []
    for j in range(0, len(traces), per):
        ch = [ev for t in traces[j:j + per] for ev in t]
        path = os.path.join(check.work, "%s_%d.ndjson" % (name, j // per))
        with open(path, "w") as f:
            for ev in ch:
                f.write(json.dumps(ev) + "\n")
        jobs.append((path, "%s_%s_%d" % (check.prop, name, j // per)))
        chunks.append(ch)
    results = pmap(_run_shard, jobs, chunksize=1, procs=len(jobs))
    tlc_rej = []
    for (gen, dist, tuples, err), ch in zip(results, chunks):
        if err:
            raise MachineryError("TLC failed on protocol traces: " + err)
        check.cov["states"] += dist
        check.cov["transitions"] += gen
        done = [t for t in tuples if t[0] == "DONE"]
        if not done or tlc.tuple_fields(done[-1][1])[3] != len(ch):
            raise MachineryError("TLC did not consume a protocol trace shard completely")
        for tag, line in tuples:
            if tag == "REJECT":
                ff = tlc.tuple_fields(line)
                tlc_rej.append((ff[1], ff[3]))
    py = []
    for ch in chunks:
        r, _ = twin(ch)
        py.extend((t, c) for t, _, c in r)
    if sorted(tlc_rej) != sorted(py):
        raise MachineryError("TLC and the Python twin disagree on protocol traces: tlc=%s py=%s" % (sorted(tlc_rej)[:5], sorted(py)[:5]))
    check.cov["traces_validated_against_impl"] += len(traces)
    check.cov["protocol_events_validated"] = check.cov.get("protocol_events_validated", 0) + total
    for s in jobs:
        try:
            os.remove(s[0])
        except OSError:
            pass
    return tlc_rej
