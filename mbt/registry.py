"""Property id -> check function(prop, tier, replay) -> exit code."""
from .checks import roundtrip

CHECKS = {}
for _p in ("C01", "C02", "C10", "C17", "C18"):
    CHECKS[_p] = roundtrip.run
