"""Property id -> check function(prop, tier, replay) -> exit code."""
from .checks import roundtrip, perturbed, expr, lifecycle, scopes, sourceform, anyinput, legacy, effort

CHECKS = {}
for _p in ("C01", "C02", "C10", "C17", "C18"):
    CHECKS[_p] = roundtrip.run
for _p in ("C07", "C08", "C11", "C13", "C14", "C15"):
    CHECKS[_p] = perturbed.run
CHECKS["C03"] = expr.run
CHECKS["C09"] = lifecycle.run
CHECKS["C16"] = scopes.run
CHECKS["C04"] = sourceform.run
CHECKS["C12"] = sourceform.run
CHECKS["C06"] = anyinput.run
CHECKS["C05"] = sourceform.run
CHECKS["C19"] = legacy.run
CHECKS["C20"] = effort.run
