"""Render a Grammar.tla derivation (`out` records) into logical statements and source text.

A logical statement is a dict:
  label  int or None          cname  construct name (emitted as `name: ` prefix) or None
  text   statement text without label / construct-name prefix
  d      nesting depth         k      record kind          idx  index of the record in `out`
"""
from . import catalogue as C


# Spelling of the generated names (program units, constructs, derived types).  The style is a function of the unit headers of
# the derivation, so every rendering of one derivation (layouts, include splits, the program minus some statements) uses the
# same names: 0 short lower case, 1 capitalised with underscores, 2 long (below the 63 character limit), 3 beginning like a keyword.
_STYLE = 0
_NAMES = {
    "u": ["u%d", "Unit_No_%d", "a_program_unit_with_a_rather_long_name_that_goes_on_%d", "program%d"],
    "c": ["c%d", "Loop_Or_Block_%d", "a_construct_with_a_rather_long_name_that_goes_on_and_on_%d", "do%d"],
    "t": ["ty%d", "Derived_Type_%d", "a_derived_type_with_a_rather_long_name_that_goes_on_%d", "real%d"],
}


def style_of(out):
    return sum(r["v"] + r["n"] for r in out if r["k"] in C.UNIT) % 4


def uname(n):
    return _NAMES["u"][_STYLE] % n


def cname(n):
    return _NAMES["c"][_STYLE] % n


def tname(n):
    return _NAMES["t"][_STYLE] % n


def stmt_of(rec, idx=0):
    k, v, n, l, x, of = rec["k"], rec["v"], rec["n"], rec["l"], rec["x"], rec["of"]
    label = l if l else None
    cn = None
    if k in C.UNIT:
        text = C.UNIT[k][v - 1]["text"].replace("{N}", uname(n))
        if k == "bdata" and v == 2:
            text = "block data"
    elif k == "endu":
        word = C.UNIT_WORD[of]
        if x == 0:
            text = "end"
        elif x == 1:
            text = "end " + word
        else:
            text = "end %s %s" % (word, uname(n))
    elif k == "contains" or k == "tcontains":
        text = "contains"
    elif k in ("use", "implnone", "decl", "format", "comp", "tbind", "enumr", "modproc", "s"):
        text = C.table(k)[v - 1]["text"]
    elif k in C.OPEN:
        text = C.OPEN[k][v - 1]["text"]
        if k == "dol":
            text = text.replace("{L}", str(l))
            label = None
        if k == "type":
            text = text.replace("{N}", tname(n))
        elif n:
            cn = cname(n)
    elif k in C.MIDS:
        text = C.MIDS[k][v - 1]["text"]
        if x == 1 and n:
            text += " " + cname(n)
    elif k == "end":
        text = "end " + C.END_WORD[of]
        if of == "type":
            if x == 1:
                text += " " + tname(n)
        elif of == "iface":
            if x == 1 and C.IFACE_SPEC[v - 1]:
                text += " " + C.IFACE_SPEC[v - 1]
        elif of != "enum" and n and x == 1:
            text += " " + cname(n)
    elif k == "cont":
        text = "continue"
    elif k == "enddo":
        text = "end do" + ((" " + cname(n)) if n else "")
    else:
        raise ValueError("unknown record kind %r" % (k,))
    return {"label": label, "cname": cn, "text": text, "d": rec["d"], "k": k, "of": of, "idx": idx, "v": v}


def stmts_of(out):
    global _STYLE
    _STYLE = style_of(out)
    try:
        return [stmt_of(r, i) for i, r in enumerate(out)]
    finally:
        _STYLE = 0


def stmt_line(s, indent=True):
    """Canonical one-line free-form text of a logical statement."""
    pre = ("  " * s["d"]) if indent else ""
    lab = ("%d " % s["label"]) if s["label"] else ""
    cn = (s["cname"] + ": ") if s["cname"] else ""
    return pre + lab + cn + s["text"]


def free_text(stmts, indent=True):
    return "\n".join(stmt_line(s, indent) for s in stmts) + "\n"


def needs08(out):
    for r in out:
        k, v = r["k"], r["v"]
        if k in ("block", "crit", "doconc", "smod"):
            return True
        tab = C.table(k) if k not in ("end", "endu", "cont", "enddo", "contains", "tcontains") else None
        if tab and 1 <= v <= len(tab) and tab[v - 1]["std"] == 8:
            return True
    return False


def free_form_evident(text):
    """Does a free-form text hold a line that cannot be fixed form?  Class restriction of every free-form layout family: a text in
    which every line starts with c, C, * or ! in column 1 (say 'character*8 function f(a); end' alone on its line) is a
    legal fixed-form file of comment lines, and fparser documents that it decides for fixed form there."""
    import re
    for line in text.split("\n"):
        if line and line[0] != "!":
            if (line[0] != "\t" and re.match(r"[^c*!]\s*[^\s\d\t]", line[:5], re.I)) or line.rstrip().endswith("&"):
                return True
    return False


def reorders(out):
    """Does the derivation hold a statement that fparser prints with its parts in another order (BIND before RESULT)?"""
    for r in out:
        k, v = r["k"], r["v"]
        tab = C.table(k) if k not in ("end", "endu", "cont", "enddo", "contains", "tcontains") else None
        if tab and 1 <= v <= len(tab) and tab[v - 1].get("reorders"):
            return True
    return False


def one_subset(out):
    """Is the derivation inside the F77/F90 subset handled by fparser1 (C19)?"""
    for r in out:
        k, v = r["k"], r["v"]
        if k in ("end", "endu", "cont", "enddo", "contains"):
            continue
        tab = C.table(k)
        if not tab or not tab[v - 1]["one"]:
            return False
    return True
