"""Development aid: every catalogue variant in a minimal context."""
import sys
sys.path.insert(0, "/verif")
from mbt import catalogue as C, fp, lexer

CTX = {
 "s": "subroutine u1(arg1, arg2)\n{}\n10 continue\nend subroutine u1\n",
 "sdo": "subroutine u1(arg1, arg2)\ndo i = 1, n\n{}\nend do\nend subroutine u1\n",
 "decl": "subroutine u1(arg1, arg2)\n{}\nend subroutine u1\n",
 "declmod": "module u1\n{}\nend module u1\n",
 "use": "subroutine u1\n{}\nend subroutine u1\n",
 "format": "subroutine u1\n100 {}\nend subroutine u1\n",
 "comp": "module u1\ntype :: ty1\n{}\nend type ty1\nend module u1\n",
 "tbind": "module u1\ntype :: ty1\ncontains\n{}\nend type ty1\nend module u1\n",
 "enumr": "module u1\nenum, bind(c)\n{}\nend enum\nend module u1\n",
 "modproc": "module u1\ninterface gen\n{}\nend interface gen\nend module u1\n",
}
def check(src, v, what):
    bad = []
    for std in ("f2003", "f2008"):
        P = fp.create(std)
        o, t = fp.parse(P, src)
        want_ok = not (v["std"] == 8 and std == "f2003")
        if (o["res"] == "ok") != want_ok:
            bad.append((what, std, "accept" if o["res"] == "ok" else o))
            continue
        if o["res"] != "ok":
            continue
        s1 = fp.text(t)
        o2, t2 = fp.parse(fp.create(std), s1)
        if o2["res"] != "ok" or fp.struct(t2) != fp.struct(t) or fp.text(t2) != s1:
            bad.append((what, std, "nofix", s1))
        a = lexer.program_tokens(src); b = lexer.program_tokens(s1)
        if a != b:
            d = [(x, y) for x, y in zip(a, b) if x != y]
            bad.append((what, std, "tokens", d[:2] if d else (len(a), len(b))))
    return bad
bad = []
for i, v in enumerate(C.SIMPLE):
    ctx = "sdo" if v["req"] == "do" else "s"
    bad += check(CTX[ctx].format(v["text"]), v, ("s", i + 1, v["text"]))
for i, v in enumerate(C.DECL):
    if v["std"] == 99: continue
    ctx = "decl" if v["proc"] else "declmod"
    bad += check(CTX[ctx].format(v["text"]), v, ("decl", i + 1, v["text"]))
for k in ("use", "format", "comp", "tbind", "enumr", "modproc"):
    for i, v in enumerate(C.table(k)):
        bad += check(CTX[k].format(v["text"]), v, (k, i + 1, v["text"]))
END = {"if": "end if", "do": "end do", "doconc": "end do", "selcase": "end select", "seltype": "end select", "where": "end where", "forall": "end forall", "assoc": "end associate", "block": "end block", "crit": "end critical"}
for k, lst in C.OPEN.items():
    for i, v in enumerate(lst):
        if v["std"] == 99: continue
        t = v["text"]
        if k == "dol":
            src = "subroutine u1\n%s\nx = 1\n20 continue\nend subroutine u1\n" % t.replace("{L}", "20")
        elif k == "type":
            src = "module u1\n%s\ninteger :: f1\nend type\nend module u1\n" % t.replace("{N}", "ty1")
        elif k == "iface":
            src = "module u1\n%s\nend interface\nend module u1\n" % t
        elif k == "enum":
            src = "module u1\n%s\nenumerator :: a\nend enum\nend module u1\n" % t
        else:
            body = "a = 1" if k in ("where",) else "a(i) = 1" if k == "forall" else "x = 1"
            mid = {"selcase": "case (1)\n", "seltype": "type is (t1)\n"}.get(k, "")
            src = "subroutine u1\nc1: %s\n%s%s\n%s c1\nend subroutine u1\n" % (t, mid, body, END[k])
        bad += check(src, v, (k, i + 1, t))
for k, lst in C.MIDS.items():
    for i, v in enumerate(lst):
        t = v["text"]
        if k in ("elif", "else"):
            src = "subroutine u1\nc1: if (x > 0) then\nx = 1\n%s c1\nx = 2\nend if c1\nend subroutine u1\n" % t
        elif k == "case":
            src = "subroutine u1\nc1: select case (i)\n%s c1\nx = 2\nend select c1\nend subroutine u1\n" % t
        elif k == "typeis":
            src = "subroutine u1\nc1: select type (cobj)\n%s c1\nx = 2\nend select c1\nend subroutine u1\n" % t
        elif k == "elsewhere":
            src = "subroutine u1\nc1: where (a > 0)\na = 1\n%s c1\na = 2\nend where c1\nend subroutine u1\n" % t
        else:
            continue
        bad += check(src, v, (k, i + 1, t))
for k, lst in C.UNIT.items():
    for i, v in enumerate(lst):
        t = v["text"].replace("{N}", "u1")
        w = C.UNIT_WORD[k]
        for end in ("end", "end " + w, "end %s u1" % w):
            if k == "bdata" and i == 1 and end.endswith("u1"): continue
            bad += check("%s\n%s\n" % (t, end), v, (k, i + 1, t, end))
for b in bad: print(b)
print("bad", len(bad))
