"""Session traces: recording format, TLC validation against specs/Session.tla and the
independent Python evaluation of the same laws (DESIGN.md 3.2 steps 4 and 5)."""
import os, json
from . import common, tlc
from .framework import MachineryError


class Digests:
    """Small integers for strings (first-seen order), so nothing big crosses into TLC."""

    def __init__(self):
        self.ids = {}
        self.rev = {}

    def __call__(self, s):
        if s is None:
            return 0
        i = self.ids.get(s)
        if i is None:
            i = self.ids[s] = len(self.ids) + 1
            self.rev[i] = s
        return i

    def text(self, i):
        return self.rev.get(i)


CFG_IDS = {}


def cfg_id(std, ic=True, pd=False, omp=False, extra=""):
    key = (std, bool(ic), bool(pd), bool(omp), extra)
    if key not in CFG_IDS:
        CFG_IDS[key] = len(CFG_IDS) + 1
    return CFG_IDS[key]


# ------------------------------------------------------------------ python twin of the laws
def _law(ev, parse_of, print_of, toks_of, copy_of, obs_of):
    law = ev["law"]

    def P(s, c):
        return parse_of.get((s, c))
    s, c = ev.get("src"), ev.get("cfg")
    p = P(s, c)
    if law == "fixpoint":
        if p is None:
            return "missing-parse"
        if p["res"] != "ok":
            return "not-accepted"
        if p["tree"] not in print_of:
            return "missing-print"
        s1 = print_of[p["tree"]]["text"]
        p1 = P(s1, c)
        if p1 is None:
            return "missing-reparse"
        if p1["res"] != "ok":
            return "output-not-accepted"
        if p1["st"] != p["st"]:
            return "structure-differs"
        if p1["tree"] not in print_of:
            return "missing-reprint"
        if print_of[p1["tree"]]["text"] != s1:
            return "text-not-fixpoint"
        return ""
    if law == "tokens":
        if p is None or p["res"] != "ok":
            return "not-accepted"
        if p["tree"] not in print_of:
            return "missing-print"
        s1 = print_of[p["tree"]]["text"]
        if s not in toks_of or s1 not in toks_of:
            return "missing-tokens"
        return "" if toks_of[s] == toks_of[s1] else "tokens-differ"
    if law == "sametree":
        q = P(ev["src2"], ev["cfg2"])
        if p is None or q is None:
            return "missing-parse"
        if p["res"] != "ok":
            return "reference-not-accepted"
        if q["res"] != "ok":
            return "variant-not-accepted"
        k = "sci" if ev["ci"] else "st"
        return "" if p[k] == q[k] else "tree-differs"
    if law == "sametextci":
        q = P(ev["src2"], ev["cfg2"])
        if p is None or q is None:
            return "missing-parse"
        if p["res"] != "ok" or q["res"] != "ok":
            return "not-accepted"
        if p["tree"] not in print_of or q["tree"] not in print_of:
            return "missing-print"
        return "" if print_of[p["tree"]]["tci"] == print_of[q["tree"]]["tci"] else "text-differs"
    if law == "reject":
        if p is None:
            return "missing-parse"
        return "accepted" if p["res"] == "ok" else ""
    if law == "accept":
        if p is None:
            return "missing-parse"
        return "" if p["res"] == "ok" else "not-accepted"
    if law == "fseat":
        if p is None:
            return "missing-parse"
        if p["res"] != "fse":
            return "not-a-syntax-error"
        if p["line"] != ev["line"]:
            return "wrong-line"
        return "" if p["q"] == ev["q"] else "wrong-quoted-text"
    if law == "clean":
        if p is None:
            return "missing-parse"
        return "" if p["res"] in ("ok", "fse") else "escape"
    if law == "stdmono":
        q = P(s, ev["cfg2"])
        if p is None or q is None:
            return "missing-parse"
        if p["res"] != "ok":
            return ""
        if q["res"] != "ok":
            return "f2008-rejects"
        if p["tree"] not in print_of or q["tree"] not in print_of:
            return "missing-print"
        a, b = print_of[p["tree"]], print_of[q["tree"]]
        if a["tci"] != b["tci"]:
            return "text-differs"
        if ev["exact"] and a["text"] != b["text"]:
            return "text-case-differs"
        return ""
    if law == "copy":
        if p is None or p["res"] != "ok":
            return "not-accepted"
        t = p["tree"]
        k = copy_of.get((t, ev["how"]))
        if k is None or t not in print_of:
            return "missing-copy"
        if not k["ok"]:
            return "copy-raised"
        if k["text"] != print_of[t]["text"]:
            return "copy-text-differs"
        if k["st"] != p["st"]:
            return "copy-structure-differs"
        if not k["wf"]:
            return "copy-not-well-formed"
        if not k["disjoint"]:
            return "copy-shares-nodes"
        if not k["indep"]:
            return "copy-not-independent"
        return ""
    if law == "obseq":
        if p is None:
            return "missing-parse"
        if p["res"] != "ok":
            return "not-accepted"
        k = (p["tree"], ev["key"])
        if k not in obs_of:
            return "missing-observation"
        return "" if obs_of[k] == ev["val"] else "observation-differs"
    if law == "obssame":
        q = P(ev["src2"], ev["cfg2"])
        if p is None or q is None:
            return "missing-parse"
        if q["res"] != "ok":
            return "reference-not-accepted"
        if p["res"] != "ok":
            return "variant-not-accepted"
        k = (p["tree"], ev["key"])
        if k not in obs_of:
            return "missing-observation"
        return "" if obs_of[k] == q["st"] else "tree-differs"
    return "unknown-law"


def evaluate(events):
    """Python twin of Session.tla: list of (tid, event index (1-based), clause)."""
    rej = []
    tid = 0
    parse_of, print_of, toks_of, copy_of, obs_of = {}, {}, {}, {}, {}
    nclaims = 0
    for i, ev in enumerate(events, 1):
        e = ev["e"]
        if e == "begin":
            tid = ev["t"]
            parse_of, print_of, toks_of, copy_of, obs_of = {}, {}, {}, {}, {}
        elif e == "parse":
            key = (ev["src"], ev["cfg"])
            o = {k: ev[k] for k in ("res", "tree", "st", "sci", "line", "q")}
            old = parse_of.get(key)
            if old is not None and any(old[k] != o[k] for k in ("res", "st", "line", "q")):
                rej.append((tid, i, "Deterministic"))
            else:
                parse_of[key] = o
        elif e == "print":
            old = print_of.get(ev["tree"])
            if old is not None and old["text"] != ev["text"]:
                rej.append((tid, i, "PrintDeterministic"))
            else:
                print_of[ev["tree"]] = {"text": ev["text"], "tci": ev["tci"]}
        elif e == "toks":
            toks_of[ev["text"]] = ev["tk"]
        elif e == "copy":
            copy_of[(ev["tree"], ev["how"])] = {k: ev[k] for k in ("ok", "st", "text", "disjoint", "indep", "wf")}
        elif e == "obs":
            obs_of[(ev["tree"], ev["key"])] = ev["val"]
        elif e == "claim":
            nclaims += 1
            c = _law(ev, parse_of, print_of, toks_of, copy_of, obs_of)
            if c:
                rej.append((tid, i, c))
        else:
            rej.append((tid, i, "unknown-event"))
    return rej, nclaims


def validate(check, events, name="session", spec="Session.tla", cfg="Session.cfg", twin=evaluate, shards=None):
    """Validate session events with TLC (sharded over JVMs at trace boundaries) and with the
    Python twin.  Returns the list of rejections (tid, clause); raises MachineryError when the
    two evaluations disagree."""
    if not events:
        return []
    # shard at begin events
    starts = [i for i, ev in enumerate(events) if ev["e"] == "begin"]
    if not starts or starts[0] != 0:
        raise MachineryError("session trace must start with a begin event")
    nsh = shards or max(1, min(common.NCPU, len(events) // 20000 + 1))
    per = (len(starts) + nsh - 1) // nsh
    chunks = []
    for k in range(0, len(starts), per):
        a = starts[k]
        b = starts[k + per] if k + per < len(starts) else len(events)
        chunks.append(events[a:b])
    jobs = []
    for j, ch in enumerate(chunks):
        path = os.path.join(check.work, "%s_%d.ndjson" % (name, j))
        with open(path, "w") as f:
            for ev in ch:
                f.write(json.dumps(ev) + "\n")
        jobs.append((spec, cfg, path, "%s_%s_%d" % (check.prop, name, j)))
    from .framework import pmap
    results = pmap(_run_shard, jobs, chunksize=1, procs=len(jobs))
    tlc_rej = []
    nclaims_tlc = 0
    for (gen, dist, tuples, err), ch in zip(results, chunks):
        if err:
            raise MachineryError("TLC failed on session traces: " + err)
        check.cov["states"] += dist
        check.cov["transitions"] += gen
        done = [t for t in tuples if t[0] == "DONE"]
        if not done:
            raise MachineryError("TLC did not reach the end of a session trace shard")
        f = tlc.tuple_fields(done[-1][1])
        nclaims_tlc += f[2]
        if f[3] != len(ch):
            raise MachineryError("TLC consumed %s of %d events" % (f[3], len(ch)))
        for tag, line in tuples:
            if tag == "REJECT":
                ff = tlc.tuple_fields(line)
                tlc_rej.append((ff[1], ff[3]))
    py_rej_full, nclaims_py = twin(events)
    py_rej = [(t, c) for t, _, c in py_rej_full]
    if sorted(tlc_rej) != sorted(py_rej) or nclaims_tlc != nclaims_py:
        raise MachineryError("TLC and the Python twin disagree on session traces: tlc=%s py=%s claims %d/%d" % (
            sorted(tlc_rej)[:5], sorted(py_rej)[:5], nclaims_tlc, nclaims_py))
    check.cov["traces_validated_against_impl"] += len(starts)
    check.cov["claims_evaluated_by_tlc"] = check.cov.get("claims_evaluated_by_tlc", 0) + nclaims_tlc
    return tlc_rej


def _run_shard(job):
    spec, cfg, path, name = job
    try:
        r = tlc.run(spec, cfg, workers=1, env={"TRACE_FILE": path}, name=name, timeout=3000)
    except tlc.TlcError as e:
        return 0, 0, [], str(e)
    return r.generated, r.distinct, r.tuples, r.error
