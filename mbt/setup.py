"""setup: generate Catalogue_gen.tla, parse every specification with SANY, validate MANIFEST.json."""
import os, sys, glob, json
from . import common, programs, tlc


def main():
    programs.ensure_generated()
    bad = 0
    for spec in sorted(glob.glob(os.path.join(common.SPECS, "*.tla"))):
        ok, out = tlc.sany(spec)
        print("sany %-28s %s" % (os.path.basename(spec), "ok" if ok else "FAILED"))
        if not ok:
            print(out[-2000:])
            bad += 1
    try:
        import jsonschema  # noqa
        m = json.load(open(os.path.join(common.VERIF, "MANIFEST.json")))
        sch = json.load(open("/root/.vp/MANIFEST.schema.json")) if os.path.exists("/root/.vp/MANIFEST.schema.json") else None
        if sch:
            jsonschema.validate(m, sch)
            print("MANIFEST.json validates")
    except ImportError:
        print("jsonschema not available in /venv: MANIFEST.json not validated here")
    # import check of the implementation under test
    from . import fp  # noqa
    print("fparser imported from", fp.FPARSER_DIR)
    return 1 if bad else 0


if __name__ == "__main__":
    sys.exit(main())
