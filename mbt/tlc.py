"""Run TLC / SANY and read their output.

Three uses (DESIGN.md 3.1): model checking a layer spec, generating behaviours
(`<<"BEH", json>>` lines printed from a CONSTRAINT/INVARIANT), and validating traces
recorded from the implementation (`<<"REJECT", ...>>` / `<<"DONE", ...>>` lines).
"""
import os, re, json, subprocess, shutil, time
from . import common

JAR = "/opt/veriftools/tla/tla2tools.jar:/opt/veriftools/tla/CommunityModules-deps.jar"


class TlcError(Exception):
    pass


class TlcResult:
    def __init__(self):
        self.generated = 0
        self.distinct = 0
        self.depth = 0
        self.stdout = ""
        self.beh = []
        self.tuples = []      # every printed <<"TAG", ...>> tuple, parsed where possible
        self.invariant_violated = None
        self.error = None
        self.wall_s = 0.0
        self.coverage = {}

    def ok(self):
        return self.error is None and self.invariant_violated is None


def _unescape_tla(s):
    out = []
    i = 0
    while i < len(s):
        c = s[i]
        if c == "\\" and i + 1 < len(s):
            n = s[i + 1]
            out.append({"n": "\n", "t": "\t", "r": "\r", "f": "\f"}.get(n, n))
            i += 2
        else:
            out.append(c)
            i += 1
    return "".join(out)


_BEH = re.compile(r'<<"BEH", "((?:[^"\\]|\\.)*)">>')
_TUP = re.compile(r'^<<"([A-Z]+)"(.*)>>\s*$')


def sany(spec):
    p = subprocess.run(["java", "-cp", JAR, "tla2sany.SANY", os.path.basename(spec)],
                       cwd=os.path.dirname(spec), capture_output=True, text=True)
    bad = p.returncode != 0 or "*** Errors" in p.stdout or "Fatal" in p.stdout or "Could not" in p.stdout
    return (not bad), p.stdout + p.stderr


def run(spec, cfg, *, workers=None, simulate=None, seed=None, env=None, timeout=3600,
        name=None, coverage=False, deadlock=False, depth_first=False, keep_stdout=True):
    """Run TLC on specs/<spec>.tla with specs/<cfg>. simulate = dict(num=, depth=)."""
    workers = workers or common.NCPU
    name = name or (os.path.splitext(os.path.basename(cfg))[0])
    meta = os.path.join(common.WORK, "tlcmeta", name + "_%d" % os.getpid())
    shutil.rmtree(meta, ignore_errors=True)
    os.makedirs(meta, exist_ok=True)
    specdir = common.SPECS
    jopts = ["-XX:+UseParallelGC", "-Xmx6g"]
    if depth_first:
        jopts.append("-Dtlc2.tool.queue.IStateQueue=StateDeque")
    cmd = ["java"] + jopts + ["-cp", JAR, "tlc2.TLC", "-workers", str(workers), "-metadir", meta,
                              "-noGenerateSpecTE", "-config", cfg]
    if not deadlock:
        cmd.append("-deadlock")
    if coverage:
        cmd += ["-coverage", "1"]
    if simulate:
        cmd += ["-simulate", "num=%d" % simulate["num"], "-depth", str(simulate["depth"])]
        if seed is not None:
            cmd += ["-seed", str(seed)]
    cmd.append(spec)
    e = dict(os.environ)
    e.setdefault("VERIF_CAT_STRIDE", "1")
    e.setdefault("VERIF_CAT_PHASE", "0")
    if env:
        e.update({k: str(v) for k, v in env.items()})
    t0 = time.time()
    try:
        p = subprocess.run(cmd, cwd=specdir, capture_output=True, text=True, env=e, timeout=timeout)
    except subprocess.TimeoutExpired:
        raise TlcError("TLC timed out after %ss: %s %s" % (timeout, spec, cfg))
    finally:
        shutil.rmtree(meta, ignore_errors=True)
    r = TlcResult()
    r.wall_s = round(time.time() - t0, 2)
    out = p.stdout
    if keep_stdout:
        r.stdout = out
    m = None
    for m in re.finditer(r"(\d+) states generated, (\d+) distinct states found", out):
        pass
    if m:
        r.generated, r.distinct = int(m.group(1)), int(m.group(2))
    m = re.search(r"The depth of the complete state graph search is (\d+)", out)
    if m:
        r.depth = int(m.group(1))
    if simulate:
        m = None
        for m in re.finditer(r"(\d+) states checked", out):
            pass
        if m and not r.generated:
            r.generated = r.distinct = int(m.group(1))
    for mm in _BEH.finditer(out):
        try:
            r.beh.append(json.loads(_unescape_tla(mm.group(1))))
        except ValueError:
            r.error = "unparsable BEH line"
    for line in out.splitlines():
        mt = _TUP.match(line)
        if mt and mt.group(1) != "BEH":
            r.tuples.append((mt.group(1), line))
    m = re.search(r"Invariant (\S+) is violated", out)
    if m:
        r.invariant_violated = m.group(1)
    m = re.search(r"Action property (\S+) is violated|Temporal properties were violated", out)
    if m:
        r.invariant_violated = m.group(1) or "temporal"
    if "Error:" in out and r.invariant_violated is None:
        idx = out.index("Error:")
        r.error = out[idx:idx + 1500]
    elif p.returncode not in (0,) and r.invariant_violated is None and not r.error:
        # TLC exit codes: 0 ok, 12 safety violation, 13 liveness, others = errors
        r.error = "TLC exit code %d\n%s" % (p.returncode, out[-1500:] + p.stderr[-500:])
    if coverage:
        for mc in re.finditer(r"<(\w+) line \d+, col \d+ to line \d+, col \d+ of module \w+>: (\d+):(\d+)", out):
            r.coverage[mc.group(1)] = max(r.coverage.get(mc.group(1), 0), int(mc.group(3)))
    return r


def tuple_fields(line):
    """Parse a printed TLA+ tuple of ints/strings like <<"REJECT", 3, 17, "GetAgain">>."""
    inner = line.strip()[2:-2]
    out = []
    for tok in re.findall(r'"(?:[^"\\]|\\.)*"|-?\d+|TRUE|FALSE', inner):
        if tok.startswith('"'):
            out.append(_unescape_tla(tok[1:-1]))
        elif tok in ("TRUE", "FALSE"):
            out.append(tok == "TRUE")
        else:
            out.append(int(tok))
    return out
