"""Load pickled parse trees in a process that never created a parser (C18: a copy made by pickle is
usable wherever it is loaded).  usage: python -m mbt.xload <file listing pickle paths>  -> one JSON line per path."""
import sys, json, pickle, os


def main():
    from . import common
    common.use_repo_source()
    from . import fp, obs
    from fparser.two.utils import Base
    out = sys.stdout
    for path in open(sys.argv[1]).read().split():
        r = {"path": path, "ok": False, "st": None, "text": None, "wf": False, "err": None, "parser_created": bool(Base.subclasses)}
        try:
            with open(path, "rb") as f:
                t = pickle.load(f)
            r["st"] = obs.h(fp.struct(t))
            r["text"] = obs.h(fp.text(t))
            r["wf_problems"] = obs.wf(t)
            r["wf"] = not r["wf_problems"]
            r["ok"] = True
        except Exception as e:  # noqa: BLE001 - loading (or printing the loaded tree) failed
            r["err"] = "%s: %s" % (type(e).__name__, str(e)[:120])
        out.write(json.dumps(r) + "\n")
    return 0


if __name__ == "__main__":
    sys.exit(main())
