#!/bin/sh
# MANIFEST.setup_cmd: build the framework from files on disk only (offline).
cd "$(dirname "$0")" || exit 1
export PYTHONHASHSEED=0
mkdir -p evidence replays .work
/venv/bin/python -m mbt.setup || exit 1
