-------------------------------- MODULE Expr --------------------------------
(***************************************************************************)
(* Fortran expression syntax R701-R723 twice (DESIGN.md 4.7):              *)
(*   Ref  - a recursive-descent recogniser written from the standard, that *)
(*          returns the grouping the standard prescribes;                  *)
(*   Impl - a transcription of fparser's rule chain  Expr -> Level_5_Expr  *)
(*          -> Equiv_Operand -> Or_Operand -> And_Operand -> Level_4_Expr  *)
(*          -> Level_3_Expr -> Level_2_Expr / Level_2_Unary_Expr ->        *)
(*          Add_Operand -> Mult_Operand -> Level_1_Expr -> Primary:        *)
(*          split the parenthesis-collapsed string at the right-most       *)
(*          (left-most for the power operator) top-level operator of the level's class,    *)
(*          match both sides, otherwise fall through to the sub-class.     *)
(* TLC enumerates EVERY token string up to MaxLen over 13 token classes    *)
(* and checks Impl = Ref (acceptance and tree).  Every accepted string and *)
(* a sample of the rejected ones are then concretised and parsed by the    *)
(* real Fortran2003.Expr; its tree must equal the specification's.         *)
(*                                                                         *)
(* token classes: "x" operand, "(" ")", and the operator classes           *)
(*   dop defined operator (.myop.)  eqv (.eqv. .neqv.)  or  and  not       *)
(*   rel (== /= < <= > >= and the dotted forms)  cat (//)  add (+ -)       *)
(*   mul (star, slash)  pow (double star)                                   *)
(***************************************************************************)
EXTENDS Naturals, Sequences, FiniteSets, TLC, Json

CONSTANT MaxLen, DumpAccepted, Alphabet
VARIABLE toks, done

Ops == {"dop","eqv","or","and","not","rel","cat","add","mul","pow"}
Toks == Ops \cup {"x","(",")"}

RECURSIVE DepthAt(_,_)
DepthAt(s, i) == IF i = 0 THEN 0 ELSE
   LET d == DepthAt(s, i-1) IN
   IF s[i] = "(" THEN d+1 ELSE IF s[i] = ")" THEN d-1 ELSE d
Balanced(s) == /\ \A i \in 1..Len(s): DepthAt(s,i) >= 0
               /\ DepthAt(s, Len(s)) = 0
\* positions of tokens of class c at parenthesis depth 0
TopPos(s, c) == { i \in 1..Len(s) : s[i] = c /\ DepthAt(s, i) = 0 }
MaxOf(S) == CHOOSE m \in S : \A n \in S : n <= m
MinOf(S) == CHOOSE m \in S : \A n \in S : m <= n

Fail == [ok |-> FALSE, t |-> <<>>]
Leaf == [ok |-> TRUE, t |-> <<"x">>]
Bin(o,l,r) == [ok |-> TRUE, t |-> <<o, l.t, r.t>>]
Un(o,a) == [ok |-> TRUE, t |-> <<o, a.t>>]
Par(a) == [ok |-> TRUE, t |-> <<"par", a.t>>]

(***************************************************************************)
(* Impl: the implementation-shaped parser                                  *)
(* levels: 10 Expr(dop) 9 L5(eqv) 8 EqvOp(or) 7 OrOp(and) 6 AndOp(not)     *)
(*         5 L4(rel, non-assoc) 4 L3(cat) 3 L2(add binary / unary)         *)
(*         2 AddOp(mul) 1 MultOp(pow, right assoc) 0 Level_1/Primary       *)
(***************************************************************************)
BinLevel == [l \in {10,9,8,7,4,2} |-> CASE l=10 -> "dop" [] l=9 -> "eqv" [] l=8 -> "or" [] l=7 -> "and" [] l=4 -> "cat" [] l=2 -> "mul"]
RECURSIVE P(_,_), PDop(_,_)
\* Expr.match: defined-operator candidates from the right; the first split whose two sides match wins
PDop(s, cands) ==
  IF cands = {} THEN P(9, s)
  ELSE LET i == MaxOf(cands) IN
       IF i = 1 \/ i = Len(s) THEN PDop(s, cands \ {i})
       ELSE LET R == P(9, SubSeq(s, i+1, Len(s))) IN
            IF ~R.ok THEN PDop(s, cands \ {i})
            ELSE LET L == P(10, SubSeq(s, 1, i-1)) IN
                 IF L.ok THEN Bin("dop", L, R) ELSE PDop(s, cands \ {i})
P(l, s) ==
  IF Len(s) = 0 THEN Fail ELSE
  CASE l = 10 -> PDop(s, TopPos(s, "dop"))
    [] l \in {9,8,7,4,2} ->
        LET ps == TopPos(s, BinLevel[l]) IN
        IF ps = {} THEN P(l-1, s) ELSE
          LET i == MaxOf(ps)
              L == P(l, SubSeq(s,1,i-1))
              R == P(l-1, SubSeq(s,i+1,Len(s))) IN
          IF L.ok /\ R.ok THEN Bin(BinLevel[l], L, R) ELSE P(l-1, s)
    [] l = 6 -> IF s[1] = "not" THEN LET A == P(5, Tail(s)) IN IF A.ok THEN Un("not", A) ELSE P(5, s) ELSE P(5, s)
    [] l = 5 -> LET ps == TopPos(s, "rel") IN
        IF ps = {} THEN P(4, s) ELSE
          LET i == MaxOf(ps)
              L == P(4, SubSeq(s,1,i-1))
              R == P(4, SubSeq(s,i+1,Len(s))) IN
          IF L.ok /\ R.ok THEN Bin("rel", L, R) ELSE P(4, s)
    [] l = 3 -> LET ps == TopPos(s, "add") IN
        LET bin == IF ps = {} THEN Fail ELSE
              LET i == MaxOf(ps)
                  L == P(3, SubSeq(s,1,i-1))
                  R == P(2, SubSeq(s,i+1,Len(s))) IN
              IF L.ok /\ R.ok THEN Bin("add", L, R) ELSE Fail IN
        IF bin.ok THEN bin
        ELSE IF s[1] = "add" THEN LET A == P(2, Tail(s)) IN IF A.ok THEN Un("add", A) ELSE P(2, s)
        ELSE P(2, s)
    [] l = 1 -> LET ps == TopPos(s, "pow") IN
        IF ps = {} THEN P(0, s) ELSE
          LET i == MinOf(ps)
              L == P(0, SubSeq(s,1,i-1))
              R == P(1, SubSeq(s,i+1,Len(s))) IN
          IF L.ok /\ R.ok THEN Bin("pow", L, R) ELSE P(0, s)
    [] l = 0 -> IF s = <<"x">> THEN Leaf
                ELSE IF Len(s) >= 3 /\ s[1] = "(" /\ s[Len(s)] = ")" /\ Balanced(SubSeq(s,2,Len(s)-1))
                     THEN LET A == P(10, SubSeq(s,2,Len(s)-1)) IN IF A.ok THEN Par(A) ELSE Fail
                ELSE IF s[1] = "dop" THEN LET A == P(0, Tail(s)) IN IF A.ok /\ A.t[1] # "dop" THEN Un("dop", A) ELSE Fail
                ELSE Fail
Impl(s) == LET r == P(10, s) IN IF r.ok THEN [ok |-> TRUE, t |-> r.t] ELSE [ok |-> FALSE, t |-> <<>>]

(***************************************************************************)
(* Ref: recursive descent per R701-R723, written from the standard         *)
(***************************************************************************)
At(s, p) == IF p <= Len(s) THEN s[p] ELSE "$"
RFail == [ok |-> FALSE, t |-> <<>>, p |-> 0]
ROk(t, p) == [ok |-> TRUE, t |-> t, p |-> p]
RECURSIVE R(_,_,_), RLoop(_,_,_)
RLoop(l, s, a) ==   \* a is an ok result at level l; extend with (op operand)...  - left associative
  IF ~a.ok THEN a ELSE
  LET op == IF l = 3 THEN "add" ELSE BinLevel[l] IN
  IF At(s, a.p) = op THEN
      LET b == R(l-1, s, a.p+1) IN
      IF b.ok THEN RLoop(l, s, ROk(<<op, a.t, b.t>>, b.p)) ELSE RFail
  ELSE a
R(l, s, p) ==
  CASE l \in {10,9,8,7,4,2} -> RLoop(l, s, R(l-1, s, p))
    [] l = 6 -> IF At(s,p) = "not" THEN LET a == R(5, s, p+1) IN IF a.ok THEN ROk(<<"not", a.t>>, a.p) ELSE RFail ELSE R(5, s, p)
    [] l = 5 -> LET a == R(4, s, p) IN      \* relational operators do not associate
                IF a.ok /\ At(s, a.p) = "rel" THEN LET b == R(4, s, a.p+1) IN IF b.ok THEN ROk(<<"rel", a.t, b.t>>, b.p) ELSE RFail ELSE a
    [] l = 3 -> IF At(s,p) = "add"
                THEN LET a == R(2, s, p+1) IN IF a.ok THEN RLoop(3, s, ROk(<<"add", a.t>>, a.p)) ELSE RFail
                ELSE RLoop(3, s, R(2, s, p))
    [] l = 1 -> LET a == R(0, s, p) IN      \* the power operator associates to the right
                IF a.ok /\ At(s, a.p) = "pow" THEN LET b == R(1, s, a.p+1) IN IF b.ok THEN ROk(<<"pow", a.t, b.t>>, b.p) ELSE RFail ELSE a
    [] l = 0 -> IF At(s,p) = "dop" THEN LET a == R(11, s, p+1) IN IF a.ok THEN ROk(<<"dop", a.t>>, a.p) ELSE RFail ELSE R(11, s, p)
    [] l = 11 -> IF At(s,p) = "x" THEN ROk(<<"x">>, p+1)
                 ELSE IF At(s,p) = "(" THEN LET e == R(10, s, p+1) IN IF e.ok /\ At(s, e.p) = ")" THEN ROk(<<"par", e.t>>, e.p+1) ELSE RFail
                 ELSE RFail
Ref(s) == LET r == R(10, s, 1) IN IF r.ok /\ r.p = Len(s)+1 THEN [ok |-> TRUE, t |-> r.t] ELSE [ok |-> FALSE, t |-> <<>>]

Init == toks = <<>> /\ done = FALSE
Next == \/ /\ ~done /\ Len(toks) < MaxLen /\ \E t \in Alphabet : toks' = Append(toks, t) /\ done' = FALSE
        \/ /\ ~done /\ Len(toks) > 0 /\ done' = TRUE /\ toks' = toks
Spec == Init /\ [][Next]_<<toks,done>>

(***************************************************************************)
(* Second generator: derivations of the expression grammar itself, for     *)
(* strings far longer than exhaustive enumeration reaches (TLC -simulate). *)
(* toks holds a sentential form; nonterminals are "E10" ... "E0", "P".     *)
(***************************************************************************)
NonTerm == {"E10","E9","E8","E7","E6","E5","E4","E3","E2","E1","E0","P"}
FirstNT(s) == IF \E i \in 1..Len(s) : s[i] \in NonTerm THEN MinOf({i \in 1..Len(s) : s[i] \in NonTerm}) ELSE 0
Subst(s, i, rhs) == SubSeq(s, 1, i-1) \o rhs \o SubSeq(s, i+1, Len(s))
Prods(nt) ==
  CASE nt = "E10" -> {<<"E10","dop","E9">>, <<"E9">>}
    [] nt = "E9" -> {<<"E9","eqv","E8">>, <<"E8">>}
    [] nt = "E8" -> {<<"E8","or","E7">>, <<"E7">>}
    [] nt = "E7" -> {<<"E7","and","E6">>, <<"E6">>}
    [] nt = "E6" -> {<<"not","E5">>, <<"E5">>}
    [] nt = "E5" -> {<<"E4","rel","E4">>, <<"E4">>}
    [] nt = "E4" -> {<<"E4","cat","E3">>, <<"E3">>}
    [] nt = "E3" -> {<<"E3","add","E2">>, <<"add","E2">>, <<"E2">>}
    [] nt = "E2" -> {<<"E2","mul","E1">>, <<"E1">>}
    [] nt = "E1" -> {<<"E0","pow","E1">>, <<"E0">>}
    [] nt = "E0" -> {<<"dop","P">>, <<"P">>}
    [] nt = "P" -> {<<"x">>, <<"(","E10",")">>}
GenInit == toks = <<"E10">> /\ done = FALSE
GenNext == \/ /\ ~done /\ FirstNT(toks) > 0
              /\ \E rhs \in Prods(toks[FirstNT(toks)]) :
                    \* keep the form bounded: only shrinking productions once it is long
                    /\ (Len(toks) >= MaxLen => Len(rhs) = 1)
                    /\ toks' = Subst(toks, FirstNT(toks), rhs)
              /\ done' = FALSE
           \/ /\ ~done /\ FirstNT(toks) = 0 /\ done' = TRUE /\ toks' = toks
GenSpec == GenInit /\ [][GenNext]_<<toks,done>>
\* every derivation of the grammar is accepted by the reference recogniser (sanity of Ref)
GenAccepted == done => Ref(toks).ok

\* the design-level statement of C03 for the rule chain: fparser's splitting algorithm yields the standard's grouping
Agree == done => (Impl(toks) = Ref(toks))
AcceptedBalanced == done => (Impl(toks).ok => Balanced(toks))
\* export: every accepted string with the standard's tree (and, with DumpAccepted = FALSE, the rejected ones too)
Dump == done => (LET r == Ref(toks) IN
                 IF r.ok \/ ~DumpAccepted THEN PrintT(<<"BEH", ToJson([toks |-> toks, ok |-> r.ok, t |-> r.t])>>) ELSE TRUE)
=============================================================================
