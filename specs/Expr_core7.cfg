CONSTANTS
  MaxLen = 7
  DumpAccepted = TRUE
  Alphabet <- CoreToks
INIT Init
NEXT Next
INVARIANT Agree
INVARIANT AcceptedBalanced
CONSTRAINT Dump
