CONSTANTS
  MaxLen = 25
  DumpAccepted = TRUE
  Alphabet <- AllToks
INIT GenInit
NEXT GenNext
INVARIANT Agree
INVARIANT GenAccepted
CONSTRAINT Dump
