CONSTANTS
  MaxLen = 6
  DumpAccepted = TRUE
  Alphabet <- AllToks
INIT Init
NEXT Next
INVARIANT Agree
INVARIANT AcceptedBalanced
CONSTRAINT Dump
