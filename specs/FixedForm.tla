------------------------------ MODULE FixedForm ------------------------------
(***************************************************************************)
(* Fixed source form (Fortran 2008 section 3.3.3) as an encoder plus a     *)
(* reference reader, in the style of FreeForm.tla (DESIGN.md 4.3).         *)
(*                                                                         *)
(* Encode: label in columns 1-5 (left or right adjusted), column 6 blank   *)
(* on an initial line, statement text from column 7; the text may be       *)
(* wrapped anywhere (also inside tokens and character literals - fixed     *)
(* form needs no marker at the break) onto continuation lines that carry a *)
(* non-blank, non-zero character in column 6; comment lines (C, c, * or !  *)
(* in column 1, or blank) may sit between the lines of a statement; a      *)
(* statement may end with a trailing ! comment.                            *)
(* Class restriction (DESIGN.md 4.3): a physical line never ends in a      *)
(* blank that belongs to the statement - fparser strips trailing blanks of *)
(* physical lines, and the property promises the free-form parse, which    *)
(* has no such freedom either.                                             *)
(*                                                                         *)
(* Decode: the reference reader; TLC checks Decode(Encode(S)) = S with     *)
(* exact line spans for every choice (RoundTrip).                          *)
(***************************************************************************)
EXTENDS Naturals, Sequences, TLC, Json, SequencesExt

CONSTANTS Stmts, MaxBreaks, MaxExtras, ContChars, AmpEnd      \* AmpEnd: a line may end in & (the reader is TOLD the form then)

VARIABLES si, pos,     \* statement, next character of its text
          cur, lines, nb, nx, first, spans, cmts, done
vars == <<si, pos, cur, lines, nb, nx, first, spans, cmts, done>>

NS == Len(Stmts)
\* the text of a statement: construct name, tokens separated by single blanks where required
TextOf(s) ==
  LET RECURSIVE F(_, _)
      F(i, acc) == IF i > Len(s.toks) THEN acc
                   ELSE F(i + 1, acc \o (IF i > 1 /\ s.toks[i].req THEN <<" ">> ELSE <<>>) \o s.toks[i].s)
  IN (IF s.nm # <<>> THEN s.nm \o <<":", " ">> ELSE <<>>) \o F(1, <<>>)
Txt == TextOf(Stmts[si])
CurLine == Len(lines) + 1
Pad(n) == [i \in 1..n |-> " "]
LabelField(lab, right) == IF right THEN Pad(5 - Len(lab)) \o lab ELSE lab \o Pad(5 - Len(lab))
Start(s, right) == LabelField(s.lab, right) \o <<" ">>

Init == /\ si = 1 /\ pos = 1 /\ lines = <<>> /\ nb = 0 /\ nx = 0 /\ first = 1 /\ spans = <<>> /\ cmts = <<>> /\ done = FALSE
        /\ \E right \in BOOLEAN : cur = Start(Stmts[1], right)

\* quote state of the text before position p (to know where a trailing comment / break is harmless)
RECURSIVE QAt(_, _, _)
QAt(t, p, q) == IF p = 0 THEN q ELSE
                LET q0 == QAt(t, p - 1, q) ch == t[p] IN
                IF q0 = "" THEN (IF ch = "'" \/ ch = "\"" THEN ch ELSE "") ELSE (IF ch = q0 THEN "" ELSE q0)

Emit == /\ ~done /\ pos <= Len(Txt)
        /\ cur' = Append(cur, Txt[pos]) /\ pos' = pos + 1
        /\ UNCHANGED <<si, lines, nb, nx, first, spans, cmts, done>>

\* comment lines: the four styles, a blank line, text that looks like a statement keyword after the C ("Call", "continue")
CmtLines == { <<>>, << <<"C", " ", "x">> >>, << <<"*", "'">> >>, << <<"!", " ", "&">>, <<>> >>, << <<"c">> >>,
              << <<"C", "a", "l", "l", " ", "f">> >>, << <<"c", "o", "n", "t", "i", "n", "u", "e">> >> }
Tagged(b, ln) == LET RECURSIVE F(_, _)
                     F(i, acc) == IF i > Len(b) THEN acc
                                  ELSE IF b[i] # <<>> THEN F(i + 1, Append(acc, <<ln + i, b[i]>>)) ELSE F(i + 1, acc)
                 IN F(1, <<>>)

\* quote state after the first i characters of the statement text ("" outside a character literal)
RECURSIVE QS(_)
QS(i) == IF i = 0 THEN "" ELSE LET q == QS(i - 1) c == Txt[i] IN
         IF q = "" THEN (IF c \in {"'", "\""} THEN c ELSE "") ELSE (IF c = q THEN "" ELSE q)

\* wrap here: the rest of the statement goes to a continuation line; outside a character literal the line that is
\* left may carry a trailing comment (with an odd quote in it)
Break == /\ ~done /\ pos > 1 /\ pos <= Len(Txt) /\ nb < MaxBreaks
         /\ (AmpEnd \/ Txt[pos - 1] # "&")           \* class restriction: a line ending in & is taken for free form by the detector
         /\ Len(cur) > 6
         /\ \E c \in ContChars, b \in CmtLines, tc \in { <<>>, <<"!", "i", "t", "'", "s">> } :
              /\ (tc # <<>> => QS(pos - 1) = "")
              \* class restriction: no significant blank at a line end (behind it a trailing comment: the blank is kept)
              /\ (Txt[pos - 1] = " " => tc # <<>>)
              /\ LET extras == (IF b # <<>> THEN 1 ELSE 0) + (IF tc # <<>> THEN 1 ELSE 0) IN
                   /\ nx + extras <= MaxExtras /\ nx' = nx + extras
              /\ lines' = Append(lines, cur \o tc) \o b
              /\ cmts' = cmts \o (IF tc # <<>> THEN << <<CurLine, tc>> >> ELSE <<>>) \o Tagged(b, CurLine)
              /\ cur' = Pad(5) \o <<c>>
         /\ nb' = nb + 1
         /\ UNCHANGED <<si, pos, first, spans, done>>

EndStmt == /\ ~done /\ pos > Len(Txt)
           /\ \E c \in { <<>>, <<" ", "!", "t", "'">> }, right \in BOOLEAN :
                /\ (c # <<>> => nx < MaxExtras) /\ nx' = IF c # <<>> THEN nx + 1 ELSE nx
                /\ lines' = Append(lines, cur \o c)
                /\ cmts' = cmts \o (IF c # <<>> THEN << <<CurLine, Tail(c)>> >> ELSE <<>>)
                /\ spans' = Append(spans, <<first, CurLine>>)
                /\ first' = CurLine + 1
                /\ IF si < NS THEN si' = si + 1 /\ cur' = Start(Stmts[si + 1], right) /\ done' = FALSE
                              ELSE si' = si /\ cur' = <<>> /\ done' = TRUE
           /\ pos' = 1 /\ UNCHANGED nb

Next == Emit \/ Break \/ EndStmt
Spec == Init /\ [][Next]_vars

(***************************************************************************)
(* The reference reader                                                    *)
(***************************************************************************)
RECURSIVE LStrip(_), RStrip(_)
LStrip(s) == IF Len(s) > 0 /\ s[1] = " " THEN LStrip(Tail(s)) ELSE s
RStrip(s) == IF Len(s) > 0 /\ s[Len(s)] = " " THEN RStrip(SubSeq(s, 1, Len(s) - 1)) ELSE s
IsComment(line) == line = <<>> \/ LStrip(line) = <<>> \/ line[1] \in {"C", "c", "*", "!"}
IsCont(line) == Len(line) >= 6 /\ line[6] \notin {" ", "0"} /\ SubSeq(line, 1, 5) = Pad(5)
Field(line) == IF Len(line) > 6 THEN SubSeq(line, 7, Len(line)) ELSE <<>>

\* statement text of a line from quote state q: cut a trailing ! comment outside character context
RECURSIVE Scan(_, _, _, _)
Scan(t, i, q, acc) ==
  IF i > Len(t) THEN [txt |-> acc, q |-> q, cmt |-> <<>>]
  ELSE LET ch == t[i] IN
    IF q = "" THEN
       IF ch = "!" THEN [txt |-> acc, q |-> q, cmt |-> SubSeq(t, i, Len(t))]
       ELSE Scan(t, i + 1, IF ch = "'" \/ ch = "\"" THEN ch ELSE "", Append(acc, ch))
    ELSE Scan(t, i + 1, IF ch = q THEN "" ELSE q, Append(acc, ch))

RECURSIVE Squeeze(_, _, _, _)
Squeeze(s, i, q, acc) ==
  IF i > Len(s) THEN acc
  ELSE LET ch == s[i] IN
    IF q = "" THEN (IF ch = " " THEN Squeeze(s, i + 1, q, acc)
                    ELSE Squeeze(s, i + 1, IF ch = "'" \/ ch = "\"" THEN ch ELSE "", Append(acc, ch)))
    ELSE Squeeze(s, i + 1, IF ch = q THEN "" ELSE q, Append(acc, ch))

Letters == {"a","b","c","d","e","f","g","h","i","j","k","l","m","n","o","p","q","r","s","t","u","v","w","x","y","z"}
Digits == {"0","1","2","3","4","5","6","7","8","9"}
RECURSIVE TakeWhile(_, _, _)
TakeWhile(s, i, S) == IF i <= Len(s) /\ s[i] \in S THEN TakeWhile(s, i + 1, S) ELSE i - 1
PeelName(t0) ==
  LET t == LStrip(t0)
      nn == TakeWhile(t, 1, Letters \cup Digits)
      after == LStrip(SubSeq(t, nn + 1, Len(t)))
      isname == nn > 0 /\ t[1] \in Letters /\ Len(after) > 0 /\ after[1] = ":" /\ (Len(after) = 1 \/ after[2] # ":")
  IN [nm |-> IF isname THEN SubSeq(t, 1, nn) ELSE <<>>, txt |-> Squeeze(IF isname THEN Tail(after) ELSE t, 1, "", <<>>)]

\* fold: i line, open = a statement is being collected, lab/acc/q/f its label, text, quote state, first line, l last line
RECURSIVE Stm(_, _, _, _, _, _, _, _, _)
Flush(open, lab, acc, f, l, out) == IF open THEN Append(out, [lab |-> lab, nm |-> PeelName(acc).nm, txt |-> PeelName(acc).txt, f |-> f, l |-> l]) ELSE out
Stm(ls, i, open, lab, acc, q, f, l, out) ==
  IF i > Len(ls) THEN Flush(open, lab, acc, f, l, out)
  ELSE IF IsComment(ls[i]) THEN Stm(ls, i + 1, open, lab, acc, q, f, l, out)
  ELSE LET r == Scan(Field(ls[i]), 1, IF IsCont(ls[i]) THEN q ELSE "", <<>>)
           t == IF r.cmt # <<>> THEN RStrip(r.txt) ELSE r.txt IN
       IF IsCont(ls[i]) THEN Stm(ls, i + 1, open, lab, acc \o t, r.q, f, i, out)
       ELSE Stm(ls, i + 1, TRUE, SelectSeq(SubSeq(ls[i], 1, 5), LAMBDA c : c # " "), t, r.q, i, i, Flush(open, lab, acc, f, l, out))
Items(ls) == Stm(ls, 1, FALSE, <<>>, <<>>, "", 0, 0, <<>>)

Flat(s) == Squeeze(TextOf([s EXCEPT !.nm = <<>>]), 1, "", <<>>)
Truth == [i \in 1..NS |-> [lab |-> Stmts[i].lab, nm |-> Stmts[i].nm, txt |-> Flat(Stmts[i]), f |-> spans[i][1], l |-> spans[i][2]]]
RoundTrip == done => Items(lines) = Truth
Dump == done => PrintT(<<"BEH", ToJson([lines |-> lines, spans |-> spans, cmts |-> cmts, nb |-> nb])>>)
=============================================================================
