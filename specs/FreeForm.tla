------------------------------ MODULE FreeForm ------------------------------
(***************************************************************************)
(* Free source form as a generative relation plus a reference reader       *)
(* (DESIGN.md 4.3; Fortran 2008 section 3.3.2).                            *)
(*                                                                         *)
(* Encode: a nondeterministic machine that lays a list of logical          *)
(* statements out on physical lines, character by character: optional      *)
(* blanks between tokens, indentation, continuation at any token boundary  *)
(* or inside a token / character literal (with the leading & the standard  *)
(* then requires), a trailing comment after the &, blank and comment lines *)
(* between the two parts, a trailing comment after the statement, `;`      *)
(* joining the next statement on the same line.  The encoder records the   *)
(* ground truth: the (first, last) physical lines of every statement and   *)
(* the comments in source order.                                           *)
(*                                                                         *)
(* Decode: the REFERENCE reader, a declarative fold over the physical      *)
(* lines with a quote state, written from the standard.                    *)
(*                                                                         *)
(* TLC checks  Decode(Encode(S, choices)) = S  with exact spans for every  *)
(* choice (RoundTrip): layout independence holds of the specification of   *)
(* the source form.  Every layout is then read by the real reader, whose   *)
(* items must equal the ground truth, and parsed.                          *)
(*                                                                         *)
(* A statement is [lab, nm, toks]; a token is [s, q, req]: s sequence of   *)
(* characters, q = is a character literal, req = a blank is required       *)
(* between this token and the previous one.                                *)
(***************************************************************************)
EXTENDS Naturals, Sequences, TLC, Json, SequencesExt

CONSTANTS Stmts, MaxBreaks, MaxExtras

VARIABLES si, ti, ci,  \* statement, token, character within token
          cur,         \* current physical line
          lines,       \* finished physical lines
          nb, nx,      \* continuation breaks used, optional extras (comments, blanks, joins) used
          first,       \* physical line on which the current statement started
          spans,       \* ground truth: <<first, last>> per finished statement
          cmts,        \* ground truth: comments in source order <<line, text>>
          blank,       \* a blank has just been emitted at this token boundary
          done
vars == <<si, ti, ci, cur, lines, nb, nx, first, spans, cmts, blank, done>>

NS == Len(Stmts)
St == Stmts[si]
NTok == Len(St.toks)
Tok == St.toks[ti]
CurLine == Len(lines) + 1

Hd(s) == (IF s.lab # <<>> THEN s.lab \o <<" ">> ELSE <<>>) \o (IF s.nm # <<>> THEN s.nm \o <<":", " ">> ELSE <<>>)

Init == /\ si = 1 /\ ti = 1 /\ ci = 1 /\ lines = <<>> /\ nb = 0 /\ nx = 0 /\ first = 1 /\ spans = <<>> /\ cmts = <<>>
        /\ blank = TRUE /\ done = FALSE
        /\ \E ind \in {<<>>, <<" ", " ">>} : cur = ind \o Hd(Stmts[1])

InTok == ci > 1
InString == ti <= NTok /\ Tok.q /\ ci > 1

EmitChar == /\ ~done /\ ti <= NTok
            /\ (ci = 1 /\ Tok.req => blank)           \* a required blank must have been emitted
            /\ cur' = Append(cur, Tok.s[ci])
            /\ IF ci = Len(Tok.s) THEN ti' = ti + 1 /\ ci' = 1 ELSE ti' = ti /\ ci' = ci + 1
            /\ blank' = FALSE
            /\ UNCHANGED <<si, lines, nb, nx, first, spans, cmts, done>>

EmitBlank == /\ ~done /\ ti <= NTok /\ ci = 1 /\ ~blank /\ ti > 1
             /\ (Tok.req \/ nx < MaxExtras)
             /\ cur' = Append(cur, " ") /\ blank' = TRUE
             /\ nx' = IF Tok.req THEN nx ELSE nx + 1
             /\ UNCHANGED <<si, ti, ci, lines, nb, first, spans, cmts, done>>

TrailCmts == { <<>>, <<"!", "c">>, <<"!", "'", "&">> }
Between == { <<>>, << <<>> >>, << <<" ", "!", "x", "'">> >>, << <<"!", "&">>, <<>> >> }
CmtsOf(b, ln) == LET RECURSIVE F(_, _)
                     F(i, acc) == IF i > Len(b) THEN acc
                                  ELSE IF b[i] # <<>> /\ SelectSeq(b[i], LAMBDA c : c # " ") # <<>>
                                       THEN F(i + 1, Append(acc, <<ln + i, SelectSeq(b[i], LAMBDA c : c # " ")>>))
                                       ELSE F(i + 1, acc)
                 IN F(1, <<>>)

\* break the line here: trailing & [comment], optional comment/blank lines, optional leading &
Break == /\ ~done /\ ti <= NTok /\ nb < MaxBreaks /\ (ti > 1 \/ ci > 1)
         /\ cur # <<" ", "&">> /\ cur # <<" ", " ">>      \* a line consisting of a lone & is not allowed
         /\ (ci = 1 /\ Tok.req => blank)
         /\ (ci = 1 \/ Tok.q)          \* breaks at token boundaries and inside character literals (what C04 claims)
         /\ \E c \in TrailCmts, b \in Between, lead \in BOOLEAN :
              /\ (InTok => lead)                      \* inside a token a leading & is required
              /\ (InString => c = <<>>)               \* in character context "&!..." would be text
              /\ (c # <<>> \/ b # <<>> => nx < MaxExtras)
              /\ nx' = IF c # <<>> \/ b # <<>> THEN nx + 1 ELSE nx
              /\ lines' = Append(lines, cur \o <<"&">> \o c) \o b
              /\ cmts' = cmts \o (IF c # <<>> THEN << <<CurLine, c>> >> ELSE <<>>) \o CmtsOf(b, CurLine)
              /\ cur' = IF lead THEN <<" ", "&">> ELSE <<" ", " ">>
         /\ nb' = nb + 1 /\ blank' = TRUE
         /\ UNCHANGED <<si, ti, ci, first, spans, done>>

\* end of statement: optional trailing comment; then a new line, or `;` and the next statement on this line
EndStmt == /\ ~done /\ ti > NTok
           /\ \E c \in TrailCmts, join \in BOOLEAN :
                /\ (join => si < NS /\ c = <<>> /\ Stmts[si + 1].lab = <<>> /\ nx < MaxExtras)
                /\ (c # <<>> => nx < MaxExtras)
                /\ nx' = IF c # <<>> \/ join THEN nx + 1 ELSE nx
                /\ spans' = Append(spans, <<first, CurLine>>)
                /\ IF join
                   THEN /\ cur' = cur \o <<";", " ">> \o Hd(Stmts[si + 1])
                        /\ UNCHANGED <<lines, cmts>> /\ first' = CurLine
                   ELSE /\ lines' = Append(lines, cur \o (IF c = <<>> THEN c ELSE <<" ">> \o c))
                        /\ cmts' = cmts \o (IF c # <<>> THEN << <<CurLine, c>> >> ELSE <<>>)
                        /\ first' = CurLine + 1
                        /\ cur' = IF si < NS THEN Hd(Stmts[si + 1]) ELSE <<>>
                /\ IF si < NS THEN si' = si + 1 /\ done' = FALSE ELSE si' = si /\ done' = TRUE
           /\ ti' = 1 /\ ci' = 1 /\ blank' = TRUE
           /\ UNCHANGED nb

Next == EmitChar \/ EmitBlank \/ Break \/ EndStmt
Spec == Init /\ [][Next]_vars

(***************************************************************************)
(* The reference reader                                                    *)
(***************************************************************************)
RECURSIVE LStrip(_), RStrip(_)
LStrip(s) == IF Len(s) > 0 /\ s[1] = " " THEN LStrip(Tail(s)) ELSE s
RStrip(s) == IF Len(s) > 0 /\ s[Len(s)] = " " THEN RStrip(SubSeq(s, 1, Len(s) - 1)) ELSE s
IsBlankOrComment(line) == LET t == LStrip(line) IN t = <<>> \/ t[1] = "!"

\* scan a line from quote state q: text up to a comment outside character context, and the new quote state
RECURSIVE Scan(_, _, _, _)
Scan(line, i, q, acc) ==
  IF i > Len(line) THEN [txt |-> acc, q |-> q, cmt |-> <<>>]
  ELSE LET ch == line[i] IN
    IF q = "" THEN
       IF ch = "!" THEN [txt |-> acc, q |-> q, cmt |-> SubSeq(line, i, Len(line))]
       ELSE IF ch = "'" \/ ch = "\"" THEN Scan(line, i + 1, ch, Append(acc, ch))
       ELSE Scan(line, i + 1, q, Append(acc, ch))
    ELSE IF ch = q THEN Scan(line, i + 1, "", Append(acc, ch)) ELSE Scan(line, i + 1, q, Append(acc, ch))

\* remove blanks outside character context
RECURSIVE Squeeze(_, _, _, _)
Squeeze(s, i, q, acc) ==
  IF i > Len(s) THEN acc
  ELSE LET ch == s[i] IN
    IF q = "" THEN (IF ch = " " THEN Squeeze(s, i + 1, q, acc)
                    ELSE IF ch = "'" \/ ch = "\"" THEN Squeeze(s, i + 1, ch, Append(acc, ch))
                    ELSE Squeeze(s, i + 1, q, Append(acc, ch)))
    ELSE Squeeze(s, i + 1, IF ch = q THEN "" ELSE q, Append(acc, ch))

\* split a sequence of [c, n] (character, physical line) records at `;` outside character context
RECURSIVE SplitSemi(_, _, _, _, _)
SplitSemi(s, i, q, cur0, acc) ==
  IF i > Len(s) THEN Append(acc, cur0)
  ELSE LET ch == s[i].c IN
    IF q = "" /\ ch = ";" THEN SplitSemi(s, i + 1, q, <<>>, Append(acc, cur0))
    ELSE SplitSemi(s, i + 1, IF q = "" THEN (IF ch = "'" \/ ch = "\"" THEN ch ELSE "") ELSE (IF ch = q THEN "" ELSE q), Append(cur0, s[i]), acc)
Tag(seq, n) == [j \in 1..Len(seq) |-> [c |-> seq[j], n |-> n]]
Chars(t) == [j \in 1..Len(t) |-> t[j].c]
NonBlank(t) == SelectSeq(t, LAMBDA x : x.c # " ")

Digits == {"0","1","2","3","4","5","6","7","8","9"}
Letters == {"a","b","c","d","e","f","g","h","i","j","k","l","m","n","o","p","q","r","s","t","u","v","w","x","y","z"}
RECURSIVE TakeWhile(_, _, _)
TakeWhile(s, i, S) == IF i <= Len(s) /\ s[i] \in S THEN TakeWhile(s, i + 1, S) ELSE i - 1
\* peel label and construct name off a logical statement (text without surrounding blanks)
Peel(t0) ==
  LET t == LStrip(t0)
      nl == TakeWhile(t, 1, Digits)
      lab == SubSeq(t, 1, nl)
      r1 == LStrip(SubSeq(t, nl + 1, Len(t)))
      nn == TakeWhile(r1, 1, Letters \cup Digits)
      afternm == LStrip(SubSeq(r1, nn + 1, Len(r1)))
      isname == nn > 0 /\ r1[1] \in Letters /\ Len(afternm) > 0 /\ afternm[1] = ":" /\ (Len(afternm) = 1 \/ afternm[2] # ":")
  IN [lab |-> lab, nm |-> IF isname THEN SubSeq(r1, 1, nn) ELSE <<>>,
      txt |-> Squeeze(IF isname THEN Tail(afternm) ELSE r1, 1, "", <<>>)]

\* fold over the physical lines: logical lines (characters tagged with their physical line), then `;` parts
RECURSIVE Logical(_, _, _, _, _, _)
\* i line index, q quote state, acc tagged text so far, cont = in a continuation
Logical(ls, i, q, acc, cont, out) ==
  IF i > Len(ls) THEN out
  ELSE IF IsBlankOrComment(ls[i]) /\ q = "" /\ ~cont THEN Logical(ls, i + 1, q, acc, FALSE, out)
  ELSE IF cont /\ IsBlankOrComment(ls[i]) THEN Logical(ls, i + 1, q, acc, cont, out)
  ELSE LET st == LStrip(ls[i])
           l0 == IF cont /\ st # <<>> /\ st[1] = "&" THEN Tail(st) ELSE ls[i]
           r == Scan(l0, 1, q, <<>>)
           t == RStrip(r.txt)
           amp == Len(t) > 0 /\ t[Len(t)] = "&"
       IN IF amp THEN Logical(ls, i + 1, r.q, acc \o Tag(SubSeq(t, 1, Len(t) - 1), i), TRUE, out)
          ELSE Logical(ls, i + 1, "", <<>>, FALSE, Append(out, acc \o Tag(t, i)))

\* every statement: label, construct name, text without blanks outside literals, and the physical lines it occupies
Items(ls) ==
  LET logical == Logical(ls, 1, "", <<>>, FALSE, <<>>)
      parts(k) == SelectSeq(SplitSemi(logical[k], 1, "", <<>>, <<>>), LAMBDA p : NonBlank(p) # <<>>)
      RECURSIVE F(_, _)
      F(k, acc) == IF k > Len(logical) THEN acc
                   ELSE F(k + 1, acc \o [j \in 1..Len(parts(k)) |->
                            LET p == Peel(Chars(parts(k)[j])) nb0 == NonBlank(parts(k)[j])
                            IN [lab |-> p.lab, nm |-> p.nm, txt |-> p.txt, f |-> nb0[1].n, l |-> nb0[Len(nb0)].n]])
  IN F(1, <<>>)

\* comments of a source, in order: <<line, text without blanks>>
RECURSIVE Comments(_, _, _, _)
Comments(ls, i, q, acc) ==
  IF i > Len(ls) THEN acc
  ELSE LET st == LStrip(ls[i]) IN
       IF st # <<>> /\ st[1] = "!"            \* a comment line is a comment even between the parts of a continued literal
       THEN Comments(ls, i + 1, q, Append(acc, <<i, SelectSeq(st, LAMBDA c : c # " ")>>))
       ELSE IF st = <<>> THEN Comments(ls, i + 1, q, acc)      \* a blank line does not end a continuation
       ELSE LET l0 == IF st # <<>> /\ st[1] = "&" THEN Tail(st) ELSE ls[i]
                r == Scan(l0, 1, q, <<>>)
                t == RStrip(r.txt)
                qn == IF Len(t) > 0 /\ t[Len(t)] = "&" THEN r.q ELSE ""
            IN Comments(ls, i + 1, qn, IF r.cmt # <<>> THEN Append(acc, <<i, SelectSeq(r.cmt, LAMBDA c : c # " ")>>) ELSE acc)

\* what the statements are, by construction
Flat(s) == FlattenSeq([i \in 1..Len(s.toks) |-> s.toks[i].s])
Truth == [i \in 1..NS |-> [lab |-> Stmts[i].lab, nm |-> Stmts[i].nm, txt |-> Flat(Stmts[i]), f |-> spans[i][1], l |-> spans[i][2]]]

RoundTrip == done => Items(lines) = Truth
CommentsKept == done => Comments(lines, 1, "", <<>>) = cmts
Dump == done => PrintT(<<"BEH", ToJson([lines |-> lines, spans |-> spans, cmts |-> cmts, nb |-> nb])>>)
=============================================================================
