------------------------------ MODULE Grammar ------------------------------
(***************************************************************************)
(* The supported valid class of Fortran programs as a derivation machine   *)
(* (DESIGN.md 4.1).  A behaviour that reaches `done` is one program: `out` *)
(* is its statement list; every record carries what the properties need as *)
(* ground truth (kind, catalogue variant, construct/unit name index,       *)
(* label, nesting depth).  The concrete text of a (kind, variant) pair     *)
(* lives in the statement catalogue (mbt/catalogue.py); the variant id     *)
(* sets the guards need are generated into Catalogue_gen.tla.              *)
(*                                                                         *)
(* record  [k, of, v, n, l, d, x]                                          *)
(*   k   statement kind          of  for k="end": kind of the opener       *)
(*   v   catalogue variant       n   name index (0 = unnamed)              *)
(*   l   statement label (0 = none; for "dol" the DO's target label)       *)
(*   d   nesting depth           x   END form / "repeats the name" flag    *)
(***************************************************************************)
EXTENDS Naturals, Sequences, FiniteSets, TLC, Json, Catalogue_gen

CONSTANTS
  MaxStmts,      \* bound on Len(out) before only closing moves remain
  MaxDepth,      \* bound on Len(stack)
  MaxUnits,      \* bound on the number of top-level program units
  MaxRich,       \* how many non-default variant picks a derivation may make
  MaxVar,        \* openers/mids/unit headers use variants 1..MaxVar
  UnitKinds,     \* subset of {"prog","main0","sub","fun","mod","smod","bdata"}
  ConKinds,      \* subset of executable construct kinds
  SpecKinds,     \* subset of {"type","iface","enum"}
  SimpleV, DeclV, UseV, FormatV, CompV, TbindV,   \* catalogue subsets in play
  NameChoices,   \* subset of {0,1}: constructs unnamed / named
  EndForms,      \* subset of {0,1,2}: END / END kind / END kind name
  LabelStmts,    \* BOOLEAN: simple statements may carry a label
  Contains,      \* BOOLEAN: CONTAINS parts are generated
  Randomised     \* BOOLEAN: (simulation only) draw catalogue variants with RandomElement
                 \* instead of enumerating them, so that a simulation step has few successors

VARIABLES out, stack, done, needs08, nlab, nname, nunit, rich
gvars == <<out, stack, done, needs08, nlab, nname, nunit, rich>>

ExecCons == {"if","do","dol","doconc","selcase","seltype","where","forall","assoc","block","crit"}
UnitK == {"prog","main0","sub","fun","mod","smod","bdata"}
Loops == {"do","dol","doconc"}

Top == stack[Len(stack)]
Pop(s) == SubSeq(s, 1, Len(s) - 1)
Depth == Len(stack)

Rec(k, of, v, n, l, x) == [k |-> k, of |-> of, v |-> v, n |-> n, l |-> l, d |-> Depth, x |-> x]
Ent(k, v, n, l, ph) == [k |-> k, v |-> v, n |-> n, l |-> l, ph |-> ph, ib |-> FALSE]

MinOf(S) == CHOOSE m \in S : \A y \in S : m <= y
Ch(S) == IF Randomised /\ S # {} THEN {RandomElement(S)} ELSE S
Pick(S) == {y \in S : y <= MaxVar}
\* cost of choosing variant v out of the allowed set S (the smallest is the default)
Cost(v, S) == IF v = MinOf(S) THEN 0 ELSE 1
Room == Len(out) < MaxStmts
SetTopPh(ph) == [stack EXCEPT ![Len(stack)].ph = ph]

\* index of the innermost program unit on the stack (0 if none)
RECURSIVE UnitIdx(_)
UnitIdx(i) == IF i = 0 THEN 0 ELSE IF stack[i].k \in UnitK THEN i ELSE UnitIdx(i - 1)
InnerUnit == stack[UnitIdx(Len(stack))]
InLoop == \E i \in (UnitIdx(Len(stack)) + 1)..Len(stack) : stack[i].k \in Loops
InProc == UnitIdx(Len(stack)) > 0 /\ InnerUnit.k \in {"sub","fun"}

\* ------------------------------------------------------------------ where may what appear
\* the top of the stack accepts an executable statement / construct
ExecHere ==
  /\ Len(stack) > 0
  /\ \/ Top.k \in {"prog","main0","sub","fun"} /\ ~Top.ib /\ Top.ph \in {"use","decl","exec"}
     \/ Top.k \in {"do","dol","doconc","assoc","crit","forall","where"}
     \/ Top.k = "if"
     \/ Top.k \in {"selcase","seltype"} /\ Top.ph = "case"
     \/ Top.k = "block"
ToExec == IF Top.k \in {"prog","main0","sub","fun","block"} THEN SetTopPh("exec") ELSE stack

\* a labelled DO that is open on top must not be "shadowed" by a statement carrying its label
SpecHere ==
  /\ Len(stack) > 0
  /\ \/ Top.k \in UnitK /\ Top.ph \in {"use","decl"}
     \/ Top.k = "block" /\ Top.ph = "decl"

\* ------------------------------------------------------------------------------ program units
OpenUnit ==
  /\ ~done /\ Room
  /\ \E k \in UnitKinds :
       /\ \/ /\ stack = <<>> /\ nunit < MaxUnits          \* external unit
             \* at most one main program
             /\ (k \in {"main0", "prog"} => ~\E i \in 1..Len(out) : out[i].k = "prog" \/ (out[i].k = "endu" /\ out[i].of = "main0"))
          \/ /\ Len(stack) > 0 /\ Top.k \in UnitK /\ Top.ph \in {"cont0","cont"} /\ k \in {"sub","fun"}
             /\ Depth < MaxDepth
          \/ /\ Len(stack) > 0 /\ Top.k = "iface" /\ k \in {"sub","fun"} /\ Depth < MaxDepth
       /\ IF k = "main0"
          THEN /\ stack' = Append(stack, Ent(k, 0, 0, 0, "use")) /\ UNCHANGED <<out, needs08, rich>>
          ELSE \E v \in Pick(CASE k = "prog" -> Unit_prog [] k = "sub" -> Unit_sub [] k = "fun" -> Unit_fun
                               [] k = "mod" -> Unit_mod [] k = "smod" -> Unit_smod [] k = "bdata" -> Unit_bdata) :
                 LET all == CASE k = "prog" -> Unit_prog [] k = "sub" -> Unit_sub [] k = "fun" -> Unit_fun
                               [] k = "mod" -> Unit_mod [] k = "smod" -> Unit_smod [] k = "bdata" -> Unit_bdata
                     is08 == k = "smod" \/ (k = "sub" /\ v \in Unit08_sub) \/ (k = "fun" /\ v \in Unit08_fun)
                 IN /\ rich + Cost(v, all) <= MaxRich /\ rich' = rich + Cost(v, all)
                    /\ out' = Append(out, Rec(k, "", v, nname + 1, 0, 0))
                    /\ stack' = Append(IF Len(stack) > 0 /\ Top.ph = "cont0" THEN SetTopPh("cont") ELSE stack,
                                       [Ent(k, v, nname + 1, 0, "use") EXCEPT !.ib = (Len(stack) > 0 /\ Top.k = "iface")])
                    /\ needs08' = (needs08 \/ is08)
       /\ nname' = nname + 1
       /\ nunit' = IF stack = <<>> THEN nunit + 1 ELSE nunit
  /\ UNCHANGED <<done, nlab>>

CloseUnit ==
  /\ ~done /\ Len(stack) > 0 /\ Top.k \in UnitK /\ Top.ph # "cont0"
  /\ (Top.k = "main0" => Top.ph \in {"exec"})          \* a headerless main program needs a body
  /\ \E f \in EndForms :
       /\ (Top.k = "main0" => f \in {0, 1})
       /\ (Top.k = "bdata" /\ Top.v = 2 => f \in {0, 1})          \* unnamed BLOCK DATA
       /\ out' = Append(out, [Rec("endu", Top.k, 0, Top.n, 0, f) EXCEPT !.d = Depth - 1])
  /\ stack' = Pop(stack)
  /\ UNCHANGED <<done, needs08, nlab, nname, nunit, rich>>

ContainsStmt ==
  /\ ~done /\ Room /\ Contains /\ Len(stack) > 0 /\ Depth < MaxDepth
  /\ Top.k \in {"prog","main0","sub","fun","mod","smod"} /\ ~Top.ib /\ Top.ph \in {"use","decl","exec"}
  /\ (Top.k = "main0" => Top.ph = "exec")
  \* an internal subprogram has no CONTAINS of its own
  /\ ~(\E i \in 1..(Len(stack) - 1) : stack[i].k \in {"prog","main0","sub","fun"})
  /\ out' = Append(out, [Rec("contains", "", 1, 0, 0, 0) EXCEPT !.d = Depth - 1])
  /\ stack' = SetTopPh("cont0")
  /\ UNCHANGED <<done, needs08, nlab, nname, nunit, rich>>

\* ------------------------------------------------------------- specification statements
UseStmt ==
  /\ ~done /\ Room /\ Len(stack) > 0 /\ Top.k \in (UnitK \ {"bdata"}) /\ Top.ph = "use"
  /\ \E v \in Ch(UseV) :
       /\ rich + Cost(v, UseV) <= MaxRich /\ rich' = rich + Cost(v, UseV)
       /\ out' = Append(out, Rec("use", "", v, 0, 0, 0))
  /\ UNCHANGED <<stack, done, needs08, nlab, nname, nunit>>

ImplicitNone ==
  /\ ~done /\ Room /\ Len(stack) > 0 /\ Top.k \in UnitK /\ Top.ph = "use"
  /\ out' = Append(out, Rec("implnone", "", 1, 0, 0, 0))
  /\ stack' = SetTopPh("decl")
  /\ UNCHANGED <<done, needs08, nlab, nname, nunit, rich>>

DeclOK(v) ==
  /\ (v \in DeclNeedsProc => InProc)
  /\ (Top.k \in {"mod","smod"} => v \in DeclModOK)
  /\ (Top.k \in {"prog","main0","sub","fun"} => v \in DeclProcOK)
  /\ (Top.k = "block" => v \in DeclBlockOK)
  /\ (Top.k = "bdata" => v \in DeclBdataOK)

DeclStmt ==
  /\ ~done /\ Room /\ SpecHere
  /\ \E v \in Ch(DeclV) :
       /\ DeclOK(v)
       /\ rich + Cost(v, DeclV) <= MaxRich /\ rich' = rich + Cost(v, DeclV)
       /\ out' = Append(out, Rec("decl", "", v, 0, 0, 0))
       /\ needs08' = (needs08 \/ v \in Decl08)
  /\ stack' = SetTopPh("decl")
  /\ UNCHANGED <<done, nlab, nname, nunit>>

FormatStmt ==
  /\ ~done /\ Room /\ Len(stack) > 0
  /\ Top.k \in {"prog","main0","sub","fun"} /\ ~Top.ib /\ Top.ph \in {"decl","exec"}
  /\ \E v \in Ch(FormatV) :
       /\ rich + Cost(v, FormatV) <= MaxRich /\ rich' = rich + Cost(v, FormatV)
       /\ out' = Append(out, Rec("format", "", v, 0, nlab, 0))
       /\ needs08' = (needs08 \/ v \in Format08)
  /\ nlab' = nlab + 1
  /\ UNCHANGED <<stack, done, nname, nunit>>

\* TYPE / INTERFACE / ENUM definitions
OpenSpecCon ==
  /\ ~done /\ Room /\ SpecHere /\ Depth < MaxDepth /\ Top.k # "bdata"
  /\ \E k \in SpecKinds :
       LET all == CASE k = "type" -> Open_type [] k = "iface" -> Open_iface [] OTHER -> Open_enum IN
       \E v \in Pick(all) :
         /\ (k = "type" /\ v \in TypeProcOnlyModule => Top.k \in {"mod","smod"})
         /\ rich + Cost(v, all) <= MaxRich /\ rich' = rich + Cost(v, all)
         /\ out' = Append(out, Rec(k, "", v, IF k = "type" THEN nname + 1 ELSE 0, 0, 0))
         /\ stack' = Append(SetTopPh("decl"), Ent(k, v, IF k = "type" THEN nname + 1 ELSE 0, 0, "body0"))
         /\ nname' = IF k = "type" THEN nname + 1 ELSE nname
  /\ UNCHANGED <<done, needs08, nlab, nunit>>

TypeBody ==
  /\ ~done /\ Room /\ Len(stack) > 0 /\ Top.k = "type"
  /\ \/ /\ Top.ph \in {"body0", "body"}
        /\ \E v \in Ch(CompV) :
             /\ (v \in CompHeadOnly => Top.ph = "body0")
             /\ rich + Cost(v, CompV) <= MaxRich /\ rich' = rich + Cost(v, CompV)
             /\ out' = Append(out, Rec("comp", "", v, 0, 0, 0))
             /\ needs08' = (needs08 \/ v \in Comp08)
             /\ stack' = IF v \in CompHeadOnly THEN stack ELSE SetTopPh("body")
     \/ /\ Top.ph \in {"body0", "body"} /\ TbindV # {}
        /\ out' = Append(out, [Rec("tcontains", "", 1, 0, 0, 0) EXCEPT !.d = Depth - 1])
        /\ stack' = SetTopPh("bind0")
        /\ UNCHANGED <<needs08, rich>>
     \/ /\ Top.ph \in {"bind0", "bind"}
        /\ \E v \in Ch(TbindV) :
             /\ (v \in TbindHeadOnly => Top.ph = "bind0")
             /\ rich + Cost(v, TbindV) <= MaxRich /\ rich' = rich + Cost(v, TbindV)
             /\ out' = Append(out, Rec("tbind", "", v, 0, 0, 0))
             /\ needs08' = (needs08 \/ v \in Tbind08)
             /\ stack' = IF v \in TbindHeadOnly THEN stack ELSE SetTopPh("bind")
  /\ UNCHANGED <<done, nlab, nname, nunit>>

EnumBody ==
  /\ ~done /\ Room /\ Len(stack) > 0 /\ Top.k = "enum"
  /\ \E v \in Pick(EnumrAll) :
       /\ rich + Cost(v, EnumrAll) <= MaxRich /\ rich' = rich + Cost(v, EnumrAll)
       /\ out' = Append(out, Rec("enumr", "", v, 0, 0, 0))
  /\ stack' = SetTopPh("some")
  /\ UNCHANGED <<done, needs08, nlab, nname, nunit>>

ModProc ==
  /\ ~done /\ Room /\ Len(stack) > 0 /\ Top.k = "iface" /\ Top.v \notin {1, 5}
  /\ \E v \in Pick(ModprocAll) :
       /\ rich + Cost(v, ModprocAll) <= MaxRich /\ rich' = rich + Cost(v, ModprocAll)
       /\ out' = Append(out, Rec("modproc", "", v, 0, 0, 0))
       /\ needs08' = (needs08 \/ v \in Modproc08)
  /\ UNCHANGED <<stack, done, nlab, nname, nunit>>

CloseSpecCon ==
  /\ ~done /\ Len(stack) > 0 /\ Top.k \in {"type","iface","enum"}
  /\ (Top.k = "enum" => Top.ph = "some")
  /\ (Top.k = "type" => Top.ph # "bind0")
  /\ \E x \in {0, 1} :      \* repeat the type name / generic spec on the END or not
       /\ (x = 1 => Top.k = "type" \/ (Top.k = "iface" /\ Top.v \notin {1, 5}))
       /\ out' = Append(out, [Rec("end", Top.k, Top.v, Top.n, 0, x) EXCEPT !.d = Depth - 1])
  /\ stack' = Pop(stack)
  /\ UNCHANGED <<done, needs08, nlab, nname, nunit, rich>>

\* ---------------------------------------------------------------- executable statements
SimpleOK(v) ==
  /\ (v \in SimpleNeedsDo => InLoop)
  /\ (v \in SimpleNeedsProc => InProc)
  /\ (Top.k = "where" => v \in SimpleWhereOK)
  /\ (Top.k = "forall" => v \in SimpleForallOK)

\* does a statement carrying label lb terminate the labelled DO(s) on top of the stack?
RECURSIVE CloseLabel(_, _)
CloseLabel(st, lb) == IF Len(st) > 0 /\ st[Len(st)].k = "dol" /\ st[Len(st)].l = lb
                      THEN CloseLabel(Pop(st), lb) ELSE st

Simple ==
  /\ ~done /\ Room /\ ExecHere
  /\ \E v \in Ch(SimpleV), lab \in BOOLEAN :
       /\ SimpleOK(v)
       /\ (lab => LabelStmts)
       /\ rich + Cost(v, SimpleV) <= MaxRich /\ rich' = rich + Cost(v, SimpleV)
       /\ out' = Append(out, Rec("s", "", v, 0, IF lab THEN nlab ELSE 0, 0))
       /\ nlab' = IF lab THEN nlab + 1 ELSE nlab
       /\ needs08' = (needs08 \/ v \in Simple08)
  /\ stack' = ToExec
  /\ UNCHANGED <<done, nname, nunit>>

OpenCon ==
  /\ ~done /\ Room /\ ExecHere /\ Depth < MaxDepth
  /\ \E k \in ConKinds, nm \in NameChoices :
       LET all == CASE k = "if" -> Open_if [] k = "do" -> Open_do [] k = "dol" -> Open_dol [] k = "doconc" -> Open_doconc
                    [] k = "selcase" -> Open_selcase [] k = "seltype" -> Open_seltype [] k = "where" -> Open_where
                    [] k = "forall" -> Open_forall [] k = "assoc" -> Open_assoc [] k = "block" -> Open_block [] OTHER -> Open_crit
           n == IF nm = 1 THEN nname + 1 ELSE 0
       IN \E v \in Pick(all) :
            /\ (Top.k = "where" => k = "where")
            /\ (Top.k = "forall" => k \in {"forall", "where"})
            /\ rich + Cost(v, all) <= MaxRich /\ rich' = rich + Cost(v, all)
            /\ IF k = "dol"
               THEN \E shared \in BOOLEAN :
                      LET lb == IF shared THEN Top.l ELSE nlab IN
                      /\ (shared => Top.k = "dol" /\ nm = 0)
                      /\ out' = Append(out, Rec(k, "", v, n, lb, 0))
                      /\ stack' = Append(ToExec, Ent(k, v, n, lb, "body"))
                      /\ nlab' = IF shared THEN nlab ELSE nlab + 1
               ELSE \E lab \in BOOLEAN :          \* the opening statement may carry a statement label of its own
                    /\ (lab => LabelStmts)
                    /\ out' = Append(out, Rec(k, "", v, n, IF lab THEN nlab ELSE 0, 0))
                    /\ stack' = Append(ToExec, Ent(k, v, n, 0,
                                   CASE k = "if" -> "then" [] k \in {"selcase","seltype"} -> "head"
                                     [] k = "block" -> "decl" [] OTHER -> "body"))
                    /\ nlab' = IF lab THEN nlab + 1 ELSE nlab
            /\ needs08' = (needs08 \/ k \in {"block","crit","doconc"})
            /\ nname' = nname + nm
  /\ UNCHANGED <<done, nunit>>

Mid ==
  /\ ~done /\ Room /\ Len(stack) > 0
  /\ \E x \in {0, 1} :                 \* repeat the construct name on the intermediate statement
       /\ (x = 1 => Top.n > 0)
       /\ \/ /\ Top.k = "if" /\ Top.ph = "then"
             /\ \E v \in Pick(Mid_elif) : out' = Append(out, [Rec("elif", "if", v, Top.n, 0, x) EXCEPT !.d = Depth - 1])
             /\ UNCHANGED stack
          \/ /\ Top.k = "if" /\ Top.ph = "then"
             /\ out' = Append(out, [Rec("else", "if", 1, Top.n, 0, x) EXCEPT !.d = Depth - 1])
             /\ stack' = SetTopPh("else")
          \/ /\ Top.k = "selcase"
             /\ \E v \in Pick(Mid_case) :
                  /\ (v = 3 => ~Top.ib)
                  /\ out' = Append(out, [Rec("case", "selcase", v, Top.n, 0, x) EXCEPT !.d = Depth - 1])
                  /\ stack' = [stack EXCEPT ![Len(stack)].ph = "case", ![Len(stack)].ib = (Top.ib \/ v = 3)]
          \/ /\ Top.k = "seltype"
             /\ \E v \in Pick(Mid_typeis) :
                  /\ (v = 3 => ~Top.ib)
                  /\ out' = Append(out, [Rec("typeis", "seltype", v, Top.n, 0, x) EXCEPT !.d = Depth - 1])
                  /\ stack' = [stack EXCEPT ![Len(stack)].ph = "case", ![Len(stack)].ib = (Top.ib \/ v = 3)]
          \/ /\ Top.k = "where" /\ Top.ph = "body"
             /\ \E v \in Pick(Mid_elsewhere) :
                  /\ out' = Append(out, [Rec("elsewhere", "where", v, Top.n, 0, x) EXCEPT !.d = Depth - 1])
                  /\ stack' = IF v = 1 THEN stack ELSE SetTopPh("final")
  /\ UNCHANGED <<done, needs08, nlab, nname, nunit, rich>>

CloseCon ==
  /\ ~done /\ Len(stack) > 0 /\ Top.k \in ExecCons
  /\ IF Top.k = "dol"
     THEN \E how \in {"cont", "enddo", "stmt"} :
            /\ (how = "stmt" => Top.n = 0 /\ Room)
            /\ (how = "cont" => Top.n = 0)
            \* a shared label cannot be terminated by END DO (one END DO ends one DO)
            /\ (how = "enddo" => ~(Len(stack) > 1 /\ stack[Len(stack) - 1].k = "dol" /\ stack[Len(stack) - 1].l = Top.l))
            \* the terminating action statement is any simple statement that may be a do-term-action-stmt
            /\ \E v \in (IF how = "stmt" THEN Ch((SimpleV \cap SimpleDoTermOK) \cup {1}) ELSE {1}) :
                 /\ SimpleOK(v)
                 /\ rich + Cost(v, SimpleV) <= MaxRich /\ rich' = rich + Cost(v, SimpleV)
                 /\ needs08' = (needs08 \/ (how = "stmt" /\ v \in Simple08))
                 /\ out' = Append(out, [Rec(IF how = "stmt" THEN "s" ELSE how, IF how = "stmt" THEN "" ELSE "dol",
                                            v, IF how = "enddo" THEN Top.n ELSE 0, Top.l, IF how = "enddo" /\ Top.n > 0 THEN 1 ELSE 0)
                                        EXCEPT !.d = IF how = "stmt" THEN Depth ELSE Depth - 1])
            /\ stack' = CloseLabel(stack, Top.l)
            /\ UNCHANGED nlab
     ELSE \E lab \in BOOLEAN :                    \* so may the END statement
          /\ (lab => LabelStmts)
          /\ out' = Append(out, [Rec("end", Top.k, Top.v, Top.n, IF lab THEN nlab ELSE 0, IF Top.n > 0 THEN 1 ELSE 0) EXCEPT !.d = Depth - 1])
          /\ stack' = Pop(stack)
          /\ nlab' = IF lab THEN nlab + 1 ELSE nlab
          /\ UNCHANGED <<needs08, rich>>
  /\ UNCHANGED <<done, nname, nunit>>

Finish ==
  /\ ~done /\ stack = <<>> /\ nunit > 0
  /\ done' = TRUE
  /\ UNCHANGED <<out, stack, needs08, nlab, nname, nunit, rich>>

GNext == OpenUnit \/ CloseUnit \/ ContainsStmt \/ UseStmt \/ ImplicitNone \/ DeclStmt \/ FormatStmt
         \/ OpenSpecCon \/ TypeBody \/ EnumBody \/ ModProc \/ CloseSpecCon
         \/ Simple \/ OpenCon \/ Mid \/ CloseCon \/ Finish

GInit == /\ out = <<>> /\ stack = <<>> /\ done = FALSE /\ needs08 = FALSE
         /\ nlab = 10 /\ nname = 0 /\ nunit = 0 /\ rich = 0

GSpec == GInit /\ [][GNext]_gvars

(***************************************************************************)
(* Sanity of the generator itself (checked by TLC on every run).           *)
(***************************************************************************)
\* reference nesting check, independent of the generator's own stack: replay `out`
Opens(r) == r.k \in (ExecCons \cup {"type","iface","enum"} \cup (UnitK \ {"main0"}))
RBad == <<[k |-> "BAD", l |-> 0]>>
RECURSIVE RCloseLab(_, _)
RCloseLab(st, lb) == IF Len(st) > 0 /\ st[Len(st)].k = "dol" /\ st[Len(st)].l = lb THEN RCloseLab(Pop(st), lb) ELSE st
RECURSIVE Replay(_, _)
Replay(i, st) ==
  IF i > Len(out) \/ st = RBad THEN st
  ELSE LET r == out[i]
           top == IF Len(st) > 0 THEN st[Len(st)] ELSE [k |-> "", l |-> 0] IN
       IF Opens(r) THEN Replay(i + 1, Append(st, [k |-> r.k, l |-> IF r.k = "dol" THEN r.l ELSE 0]))
       ELSE IF r.k = "enddo" THEN (IF top.k = "dol" /\ top.l = r.l THEN Replay(i + 1, Pop(st)) ELSE RBad)
       ELSE IF r.k \in {"end", "endu"} THEN
              (IF r.of = "main0" THEN Replay(i + 1, st)
               ELSE IF top.k = r.of THEN Replay(i + 1, Pop(st)) ELSE RBad)
       ELSE IF r.k = "cont" THEN (IF top.k = "dol" /\ top.l = r.l THEN Replay(i + 1, RCloseLab(st, r.l)) ELSE RBad)
       ELSE IF r.l > 0 THEN Replay(i + 1, RCloseLab(st, r.l))
       ELSE Replay(i + 1, st)
WellNested == done => Replay(1, <<>>) = <<>>

\* labels are unique per use as a statement label (shared DO labels appear on several DO openers)
LabelsUnique == done => \A i, j \in 1..Len(out) :
                   (i # j /\ out[i].l > 0 /\ out[i].l = out[j].l) => (out[i].k = "dol" \/ out[j].k = "dol")
Needs08Sound == done => (needs08 <=> \E i \in 1..Len(out) :
       \/ out[i].k \in {"block","crit","doconc","smod"}
       \/ out[i].k = "s" /\ out[i].v \in Simple08
       \/ out[i].k = "decl" /\ out[i].v \in Decl08
       \/ out[i].k = "format" /\ out[i].v \in Format08
       \/ out[i].k = "comp" /\ out[i].v \in Comp08
       \/ out[i].k = "tbind" /\ out[i].v \in Tbind08
       \/ out[i].k = "modproc" /\ out[i].v \in Modproc08
       \/ out[i].k = "sub" /\ out[i].v \in Unit08_sub
       \/ out[i].k = "fun" /\ out[i].v \in Unit08_fun)

Dump == done => PrintT(<<"BEH", ToJson([out |-> out, needs08 |-> needs08])>>)
GView == <<out, stack, done, needs08, nlab, nname, nunit, rich>>
=============================================================================
