SPECIFICATION Spec
CONSTANTS
  MaxStmts = 6
  MaxDepth = 4
  MaxUnits = 1
  MaxRich <- Unlimited
  MaxVar = 1
  UnitKinds <- SubOnly
  ConKinds <- DolOnly
  SpecKinds <- Empty
  SimpleV <- Set1
  DeclV <- Empty
  UseV <- Empty
  FormatV <- Empty
  CompV <- Set1
  TbindV <- Empty
  NameChoices <- Set01
  EndForms <- Set1
  LabelStmts = FALSE
  Contains = FALSE
  Randomised = FALSE
INVARIANT WellNested
INVARIANT LabelsUnique
INVARIANT Needs08Sound
CONSTRAINT Dump
