SPECIFICATION Spec
CONSTANTS
  MaxStmts = 5
  MaxDepth = 3
  MaxUnits = 1
  MaxRich <- Unlimited
  MaxVar = 1
  UnitKinds <- ExhUnits
  ConKinds <- ExhCons
  SpecKinds <- ExhSpec
  SimpleV <- Set1
  DeclV <- Set1
  UseV <- Set1
  FormatV <- Set1
  CompV <- Set1
  TbindV <- Empty
  NameChoices <- Set01
  EndForms <- Set02
  LabelStmts = FALSE
  Contains = TRUE
  Randomised = FALSE
INVARIANT WellNested
INVARIANT LabelsUnique
INVARIANT Needs08Sound
CONSTRAINT Dump
