SPECIFICATION Spec
CONSTANTS
  MaxStmts = 4
  MaxDepth = 3
  MaxUnits = 1
  MaxRich <- Unlimited
  MaxVar = 1
  UnitKinds <- OneUnits
  ConKinds <- OneCons
  SpecKinds <- Empty
  SimpleV <- Set1
  DeclV <- Set1
  UseV <- Set1
  FormatV <- Set1
  CompV <- Set1
  TbindV <- Empty
  NameChoices <- Set01
  EndForms <- Set012
  LabelStmts = FALSE
  Contains = TRUE
  Randomised = FALSE
INVARIANT WellNested
INVARIANT LabelsUnique
CONSTRAINT Dump
