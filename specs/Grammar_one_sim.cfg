SPECIFICATION Spec
CONSTANTS
  MaxStmts = 35
  MaxDepth = 5
  MaxUnits = 3
  MaxRich <- Unlimited
  MaxVar = 4
  UnitKinds <- OneUnits
  ConKinds <- OneCons
  SpecKinds <- Empty
  SimpleV <- SimpleOneSim
  DeclV <- DeclOne
  UseV <- UseOne
  FormatV <- FormatOne
  CompV <- Set1
  TbindV <- Empty
  NameChoices <- Set01
  EndForms <- Set012
  LabelStmts = TRUE
  Contains = TRUE
  Randomised = TRUE
INVARIANT WellNested
INVARIANT LabelsUnique
CONSTRAINT Dump
