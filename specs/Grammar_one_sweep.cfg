SPECIFICATION Spec
CONSTANTS
  MaxStmts = 3
  MaxDepth = 3
  MaxUnits = 1
  MaxRich = 1
  MaxVar = 4
  UnitKinds <- SweepUnits
  ConKinds <- OneCons
  SpecKinds <- Empty
  SimpleV <- SimpleOne
  DeclV <- DeclOne
  UseV <- UseOne
  FormatV <- FormatOne
  CompV <- Set1
  TbindV <- Empty
  NameChoices <- Set1
  EndForms <- Set1
  LabelStmts = FALSE
  Contains = FALSE
  Randomised = FALSE
INVARIANT WellNested
CONSTRAINT Dump
