SPECIFICATION Spec
CONSTANTS
  MaxStmts = 40
  MaxDepth = 5
  MaxUnits = 3
  MaxRich <- Unlimited
  MaxVar = 30
  UnitKinds <- AllUnits
  ConKinds <- AllCons
  SpecKinds <- AllSpec
  SimpleV <- SimpleAll
  DeclV <- DeclAll
  UseV <- UseAll
  FormatV <- FormatAll
  CompV <- CompAll
  TbindV <- TbindAll
  NameChoices <- Set01
  EndForms <- Set012
  LabelStmts = TRUE
  Contains = TRUE
  Randomised = TRUE
INVARIANT WellNested
INVARIANT LabelsUnique
INVARIANT Needs08Sound
CONSTRAINT Dump
