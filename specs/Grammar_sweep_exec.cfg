SPECIFICATION Spec
CONSTANTS
  MaxStmts = 3
  MaxDepth = 3
  MaxUnits = 1
  MaxRich = 1
  MaxVar = 30
  UnitKinds <- SubOnly
  ConKinds <- SweepCons
  SpecKinds <- Empty
  SimpleV <- SimpleAll
  DeclV <- Set1
  UseV <- Set1
  FormatV <- Set1
  CompV <- Set1
  TbindV <- Empty
  NameChoices <- Set01
  EndForms <- Set1
  LabelStmts = FALSE
  Contains = FALSE
  Randomised = FALSE
INVARIANT WellNested
INVARIANT LabelsUnique
INVARIANT Needs08Sound
CONSTRAINT Dump
