SPECIFICATION Spec
CONSTANTS
  MaxStmts = 4
  MaxDepth = 3
  MaxUnits = 1
  MaxRich = 1
  MaxVar = 30
  UnitKinds <- SweepUnits
  ConKinds <- Empty
  SpecKinds <- AllSpec
  SimpleV <- Set1
  DeclV <- DeclAll
  UseV <- UseAll
  FormatV <- FormatAll
  CompV <- CompAll
  TbindV <- TbindAll
  NameChoices <- Set1
  EndForms <- Set1
  LabelStmts = FALSE
  Contains = FALSE
  Randomised = FALSE
INVARIANT WellNested
INVARIANT LabelsUnique
INVARIANT Needs08Sound
CONSTRAINT Dump
