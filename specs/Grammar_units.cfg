SPECIFICATION Spec
CONSTANTS
  MaxStmts = 5
  MaxDepth = 1
  MaxUnits = 3
  MaxRich <- Unlimited
  MaxVar = 1
  UnitKinds <- AllUnits
  ConKinds <- Empty
  SpecKinds <- Empty
  SimpleV <- Set1
  DeclV <- Set1
  UseV <- Empty
  FormatV <- Empty
  CompV <- Set1
  TbindV <- Empty
  NameChoices <- Set1
  EndForms <- Set02
  LabelStmts = FALSE
  Contains = FALSE
  Randomised = FALSE
INVARIANT WellNested
INVARIANT LabelsUnique
INVARIANT Needs08Sound
CONSTRAINT Dump
