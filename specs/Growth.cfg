SPECIFICATION Spec
CONSTANTS
  Deg = 2
  MinN = 4
CONSTRAINT Done
