------------------------------- MODULE Growth -------------------------------
(***************************************************************************)
(* Property C20 as a law on recorded effort measurements (DESIGN.md 6).    *)
(* A trace is a sequence of records [f, n, c]: for input family f of size  *)
(* n the real parser made c rule-constructor calls (a deterministic count  *)
(* taken by the harness).  The law, for every family:                      *)
(*   Bounded   c(n) <= Coef[f] * n^Deg      (a fixed low-degree polynomial)*)
(*   Doubling  c(2n) <= 2^Deg * 5/4 * c(n)  for n >= MinN                  *)
(* TLC replays the trace and evaluates both clauses at every record; it is *)
(* total (a violated clause is printed and the run carries on).            *)
(***************************************************************************)
EXTENDS Naturals, Sequences, TLC, Json, IOUtils

CONSTANTS Deg, MinN
Trace == ndJsonDeserialize(IOEnv.TRACE_FILE)
N == Len(Trace)
VARIABLES l, prev, nbad
vars == <<l, prev, nbad>>

Pow(b, e) == IF e = 0 THEN 1 ELSE IF e = 1 THEN b ELSE IF e = 2 THEN b * b ELSE b * b * b
Init == l = 1 /\ prev = [f |-> "", n |-> 0, c |-> 0] /\ nbad = 0
Ev == Trace[l]

Bounded(e) == e.c <= e.coef * Pow(e.n, Deg)
Doubling(p, e) == (p.f = e.f /\ e.n = 2 * p.n /\ p.n >= MinN) => (e.c * 4 <= Pow(2, Deg) * 5 * p.c)

Next == /\ l <= N /\ l' = l + 1
        /\ prev' = Ev
        /\ IF ~Bounded(Ev) THEN PrintT(<<"REJECT", l, Ev.f, Ev.n, "Bounded">>) /\ nbad' = nbad + 1
           ELSE IF ~Doubling(prev, Ev) THEN PrintT(<<"REJECT", l, Ev.f, Ev.n, "Doubling">>) /\ nbad' = nbad + 1
           ELSE nbad' = nbad
Spec == Init /\ [][Next]_vars
Done == (l = N + 1) => PrintT(<<"DONE", nbad, N>>)
=============================================================================
