------------------------------ MODULE Lifecycle ------------------------------
(***************************************************************************)
(* What survives a parse (DESIGN.md 4.8).  Process-wide state of fparser2: *)
(* the registry of rule classes (rebuilt by ParserFactory.create for one   *)
(* standard), the current scoping region and the set of top-level symbol   *)
(* tables.  Operations:                                                    *)
(*   Create(std)   rebuilds the registry, clears the tables                *)
(*   ParseOk(p)    a valid program: its units get tables, scope closed     *)
(*   ParseFail(q)  an invalid program, by failure path - leaves NOTHING    *)
(* TLC enumerates every history up to MaxLen; each is replayed against the *)
(* real library in a fresh process and the projection (current scope,      *)
(* table names) is compared with `scope`/`tables` after every step; the    *)
(* final  Create(s) ; Parse(x)  must give the result of a fresh process.   *)
(* KnownDefects = TRUE enables the two leaks the pinned tree had as named  *)
(* actions; TLC then refutes FailureLeavesNothing (non-vacuity run).       *)
(***************************************************************************)
EXTENDS Naturals, Sequences, FiniteSets, TLC, Json

CONSTANTS MaxLen, KnownDefects, Valid, Invalid

VARIABLES reg, scope, tables, hist, done
vars == <<reg, scope, tables, hist, done>>

Stds == {"f2003", "f2008"}
\* units (= top-level symbol tables) of the valid programs of the alphabet (texts in mbt/checks/lifecycle.py)
Units(p) == CASE p = "V1" -> {"a"} [] p = "V2" -> {"m", "p"} [] p = "V3" -> {"fparser2:main_program"} [] p = "V4" -> {"o"} [] OTHER -> {}

Init == reg = "none" /\ scope = "" /\ tables = {} /\ hist = <<>> /\ done = FALSE

Create(s) == /\ ~done /\ Len(hist) < MaxLen
             /\ reg' = s /\ scope' = "" /\ tables' = {}
             /\ hist' = Append(hist, <<"create", s>>) /\ UNCHANGED done
ParseOk(p) == /\ ~done /\ Len(hist) < MaxLen /\ reg # "none"
              /\ tables' = tables \cup Units(p) /\ scope' = ""
              /\ hist' = Append(hist, <<"ok", p>>) /\ UNCHANGED <<reg, done>>
ParseFail(q) == /\ ~done /\ Len(hist) < MaxLen /\ reg # "none"
                /\ hist' = Append(hist, <<"fail", q>>)
                /\ \/ UNCHANGED <<scope, tables>>
                   \* named deviations of the pinned tree (fixed by 8cfbec0 and 81d019a)
                   \/ /\ KnownDefects /\ q = "I4" /\ scope' = "a" /\ tables' = tables \cup {"a"}
                   \/ /\ KnownDefects /\ q = "I3" /\ scope' = "fparser2:main_program" /\ UNCHANGED tables
                /\ UNCHANGED <<reg, done>>
Finish == /\ ~done /\ done' = TRUE /\ UNCHANGED <<reg, scope, tables, hist>>

Next == (\E s \in Stds : Create(s)) \/ (\E p \in Valid : ParseOk(p)) \/ (\E q \in Invalid : ParseFail(q)) \/ Finish
Spec == Init /\ [][Next]_vars

\* C09, second sentence: a failing parse leaves nothing behind
FailureLeavesNothing == [][(\E q \in Invalid : ParseFail(q)) => (scope' = "" /\ tables' = tables)]_vars
ScopeClosedBetweenCalls == scope = ""
CleanAfterCreate == [][(\E s \in Stds : Create(s)) => (tables' = {} /\ scope' = "")]_vars
\* C09, first sentence, as a theorem of the model: the result of a parse is a function of
\* (registry, symbols visible from the tables, source); directly after Create the tables are empty,
\* so the result equals that of a fresh process whatever the history was
Visible == [r |-> reg, t |-> tables]
HistoryIndependent == (Len(hist) > 0 /\ hist[Len(hist)][1] = "create") => Visible = [r |-> hist[Len(hist)][2], t |-> {}]

Dump == done => PrintT(<<"BEH", ToJson([hist |-> hist])>>)
=============================================================================
