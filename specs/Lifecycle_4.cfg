SPECIFICATION Spec
CONSTANTS
  MaxLen = 4
  KnownDefects = FALSE
  Valid <- ValidSet
  Invalid <- InvalidSet
INVARIANT ScopeClosedBetweenCalls
INVARIANT HistoryIndependent
PROPERTY FailureLeavesNothing
PROPERTY CleanAfterCreate
CONSTRAINT Dump
