SPECIFICATION Spec
CONSTANTS
  MaxLen = 2
  KnownDefects = TRUE
  Valid <- ValidSet
  Invalid <- InvalidSet
INVARIANT ScopeClosedBetweenCalls
INVARIANT HistoryIndependent
PROPERTY FailureLeavesNothing
PROPERTY CleanAfterCreate
CONSTRAINT Dump
