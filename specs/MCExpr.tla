------------------------------ MODULE MCExpr ------------------------------
EXTENDS Expr
AllToks == Toks
\* reduced alphabet for deeper enumeration: one representative per associativity/precedence situation
CoreToks == {"x", "(", ")", "dop", "and", "not", "rel", "add", "mul", "pow"}
=============================================================================
