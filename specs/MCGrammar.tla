---------------------------- MODULE MCGrammar ----------------------------
(* Model-checking wrapper for Grammar: named constant sets for the .cfg files. *)
EXTENDS Grammar
AllUnits == {"prog","main0","sub","fun","mod","smod","bdata"}
AllCons == ExecCons
AllSpec == {"type","iface","enum"}
Unlimited == 1000
\* reduced alphabets for the exhaustive configuration
ExhUnits == {"prog","sub","mod"}
ExhCons == {"if","do","dol","selcase","block"}
ExhSpec == {"type"}
Set12 == {1, 2}
Set1 == {1}
Set01 == {0, 1}
Set012 == {0, 1, 2}
Set02 == {0, 2}
Empty == {}
SweepUnits == {"sub", "mod"}
SweepCons == {"if", "dol", "where", "forall"}
SimCons == ExecCons
Set123 == {1, 2, 3}
SubOnly == {"sub"}
SimpleOneSim == SimpleOne \ SimpleSolo
DolOnly == {"dol"}
OneUnits == {"prog", "sub", "fun", "mod", "bdata"}
OneCons == {"if", "do", "dol", "selcase", "where"}
Spec == GSpec
=============================================================================
