---------------------------- MODULE MCPerturb ----------------------------
(* Model-checking wrapper for Perturb: named constant sets for the .cfg files. *)
EXTENDS Perturb
AllUnits == {"prog","main0","sub","fun","mod","smod","bdata"}
AllCons == ExecCons
AllSpec == {"type","iface","enum"}
Unlimited == 1000
ExhUnits == {"prog","sub","mod"}
ExhUnits0 == {"prog","sub","mod","main0"}
ExhCons == {"if","do","dol","selcase","block"}
NestCons == {"if","do","dol","selcase","block","where"}
NestCons2 == {"forall","assoc","crit","seltype","doconc"}
SubMod == {"sub","mod","fun"}
SubFun == {"sub","fun"}
ExhSpec == {"type"}
Set12 == {1, 2}
Set1 == {1}
Set01 == {0, 1}
Set0 == {0}
Set012 == {0, 1, 2}
Set02 == {0, 2}
Empty == {}
SubOnly == {"sub"}
ProgSub == {"prog", "sub"}
KCmt == {"cmt"}
KCmtJoin == {"cmt", "join"}
KCpp == {"cpp"}
KCmtCpp == {"cmt", "cpp"}
KGarb == {"garb"}
KGarbLay == {"garb", "cmt", "cpp"}
KInc == {"inc"}
KSent == {"sent"}
KStruct == {"del", "ins", "ren", "par"}
KRenCmt == {"ren", "cmt", "cpp"}
KStructCmt == {"del", "ins", "ren", "par", "cmt", "cpp"}
DirCls == {6, 7}
KSentCmt == {"sent", "cmt"}
KMut == {"mut"}
ModOnly == {"mod"}
SweepUnits == {"sub", "mod"}
SweepCons == {"if", "dol", "where", "forall"}
KLayout == {"brk", "join", "case", "cmt"}
KLayout1 == {"brk", "join", "case"}
KBrk == {"brk"}
KJoin == {"join"}
IfOnly == {"if"}
KPar == {"par"}
InsSmall == {1, 2, 3, 7, 11}
InsAll == 1..12
Set123 == {1, 2, 3}
Spec == PSpec
=============================================================================
