----------------------------- MODULE MCScopes -----------------------------
EXTENDS Scopes
NameSet == {"sin", "cos", "alog", "log"}
OneName == {"sin"}
Specific == {"alog", "log"}
HowAll == {"decl", "only", "ren", "wild"}
=============================================================================
