----------------------------- MODULE MCScopes -----------------------------
EXTENDS Scopes
NameSet == {"sin", "cos", "alog", "log", "erf", "gamma", "shiftr", "atan2"}
F08Names == {"erf", "shiftl"}
OneName == {"sin"}
Specific == {"alog", "log"}
Three == {"sin", "alog", "log"}
PosAll == 1..7
Pos1 == {1}
HowAll == {"decl", "only", "ren", "wild"}
=============================================================================
