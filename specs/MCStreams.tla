----------------------------- MODULE MCStreams -----------------------------
EXTENDS Streams
AllItems == {"s", "s10", "if", "ifn", "else", "endif", "endifn", "do", "enddo", "dol10", "dol20", "cont10", "cont20", "enddo10", "blk", "endblk", "sel", "case", "endsel"}
DoItems == {"s", "s10", "do", "enddo", "dol10", "dol20", "cont10", "cont20", "enddo10", "if", "endif"}
\* labelled-DO nests with body statements and the surplus END of the enclosing subprogram
UnitEndItems == {"s", "s10", "dol10", "dol20", "cont10", "cont20", "endu"}
=============================================================================
