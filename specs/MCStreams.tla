----------------------------- MODULE MCStreams -----------------------------
EXTENDS Streams
AllItems == {"s", "s10", "if", "ifn", "else", "endif", "endifn", "do", "enddo", "dol10", "dol20", "cont10", "cont20", "enddo10", "blk", "endblk", "sel", "case", "endsel"}
DoItems == {"s", "s10", "do", "enddo", "dol10", "dol20", "cont10", "cont20", "enddo10", "if", "endif"}
=============================================================================
