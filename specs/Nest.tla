-------------------------------- MODULE Nest --------------------------------
(***************************************************************************)
(* Reference recogniser for nesting, END names and DO labels, written from *)
(* the Fortran standard and NOT from BlockBase.match (DESIGN.md 4.4).      *)
(* It works on abstract statement streams: sequences of records            *)
(*     [k, of, n, l, x]                                                    *)
(* as produced by Grammar.tla (k statement kind; of = kind closed by an    *)
(* END; n name index; l label; x END form).  It states only what property  *)
(* C08 states: openers, ENDs, END names, labels of labelled DO.            *)
(* It deliberately says nothing about the order of ELSE IF / ELSE / CASE.  *)
(***************************************************************************)
EXTENDS Naturals, Sequences

NUnitK == {"prog", "sub", "fun", "mod", "smod", "bdata"}
NExecCons == {"if","do","dol","doconc","selcase","seltype","where","forall","assoc","block","crit"}
NSpecCons == {"type","iface","enum"}
NOpeners == NUnitK \cup NExecCons \cup NSpecCons
NMids == {"elif","else","case","typeis","elsewhere","tcontains"}
MidOf(k) == CASE k \in {"elif","else"} -> "if" [] k = "case" -> "selcase" [] k = "typeis" -> "seltype"
              [] k = "elsewhere" -> "where" [] k = "tcontains" -> "type" [] OTHER -> ""

NTop(st) == st[Len(st)]
NPop(st) == SubSeq(st, 1, Len(st) - 1)
NEnt(k, n, l) == [k |-> k, n |-> n, l |-> l]
NBad == <<NEnt("BAD", 0, 0)>>

RECURSIVE NCloseLab(_, _)
NCloseLab(st, lb) == IF Len(st) > 0 /\ NTop(st).k = "dol" /\ NTop(st).l = lb THEN NCloseLab(NPop(st), lb) ELSE st
HasOpenLab(st, lb) == \E i \in 1..Len(st) : st[i].k = "dol" /\ st[i].l = lb

\* statements that may only appear inside a program unit (everything but unit headers):
\* at top level they open a headerless main program, which only END / END PROGRAM closes
InUnit(st) == \E i \in 1..Len(st) : st[i].k \in (NUnitK \cup {"main0"})
OpenMain(st) == IF InUnit(st) THEN st ELSE Append(st, NEnt("main0", 0, 0))

\* executable constructs and statements need a unit that has an execution part
ExecOK(st) == \A i \in 1..Len(st) : st[i].k \notin {"mod", "smod", "bdata", "type", "iface", "enum"}
               \/ \E j \in (i + 1)..Len(st) : st[j].k \in {"sub", "fun"}

\* a statement carrying label lb: closes the labelled DOs with that label that are on top;
\* if such a DO is open but not on top the construct nesting is violated
AfterLabel(st, lb) ==
  IF lb = 0 \/ ~HasOpenLab(st, lb) THEN st
  ELSE IF NTop(st).k = "dol" /\ NTop(st).l = lb THEN NCloseLab(st, lb) ELSE NBad

NStep(st0, r) ==
  IF st0 = NBad THEN NBad ELSE
  LET st == IF r.k \in NUnitK THEN st0 ELSE OpenMain(st0) IN
  CASE r.k \in NUnitK ->
         \* external unit at top level; internal/module subprogram after CONTAINS; interface body
         IF Len(st) = 0 \/ NTop(st).k \in (NUnitK \cup {"main0", "iface"}) THEN Append(st, NEnt(r.k, r.n, 0)) ELSE NBad
    [] r.k \in (NExecCons \ {"dol"}) -> Append(st, NEnt(r.k, r.n, 0))
    [] r.k = "dol" -> Append(st, NEnt("dol", r.n, r.l))
    [] r.k \in NSpecCons -> Append(st, NEnt(r.k, r.n, 0))
    [] r.k \in NMids ->
         IF NTop(st).k = MidOf(r.k) /\ (r.x = 0 \/ r.n = NTop(st).n) THEN st ELSE NBad
    [] r.k = "end" ->
         IF NTop(st).k # r.of THEN NBad
         ELSE IF r.of \in NExecCons
              THEN \* construct name: present on the END iff the opener is named, and equal
                   (IF (r.x = 1 /\ r.n = NTop(st).n /\ r.n > 0) \/ (r.x = 0 /\ NTop(st).n = 0) THEN NPop(st) ELSE NBad)
              ELSE \* END TYPE / END INTERFACE / END ENUM: optional name, equal if present
                   (IF r.x = 0 \/ r.n = NTop(st).n THEN NPop(st) ELSE NBad)
    [] r.k = "enddo" ->
         \* labelled END DO terminates exactly the labelled DO on top with that label
         IF NTop(st).k = "dol" /\ NTop(st).l = r.l /\ r.n = NTop(st).n THEN NPop(st)
         \* an END DO closing an unlabelled DO may carry a statement label of its own (not that of an open labelled DO)
         ELSE IF NTop(st).k \in {"do", "doconc"} /\ r.n = NTop(st).n /\ (r.l = 0 \/ ~HasOpenLab(st, r.l)) THEN NPop(st)
         ELSE NBad
    [] r.k = "endu" ->
         \* END [kind [name]]: bare END closes any unit; END kind must match the kind; name must match
         IF NTop(st).k \notin (NUnitK \cup {"main0"}) THEN NBad
         ELSE IF r.x = 0 THEN NPop(st)
         ELSE IF (IF NTop(st).k = "main0" THEN "prog" ELSE NTop(st).k) # (IF r.of = "main0" THEN "prog" ELSE r.of) THEN NBad
         \* (a name on END PROGRAM without a PROGRAM statement cannot be compared with anything; the
         \*  property itself counts the removal of a PROGRAM statement as leaving a valid program)
         ELSE IF r.x = 2 /\ NTop(st).k # "main0" /\ r.n # NTop(st).n THEN NBad
         ELSE NPop(st)
    [] r.k = "contains" -> IF NTop(st).k \in (NUnitK \cup {"main0"}) THEN st ELSE NBad
    [] r.k = "cont" -> AfterLabel(st, r.l)
    [] OTHER -> AfterLabel(st, r.l)          \* any other statement

RECURSIVE NRun(_, _, _)
NRun(s, i, st) == IF i > Len(s) THEN st ELSE NRun(s, i + 1, NStep(st, s[i]))
Accepts(s) == NRun(s, 1, <<>>) = <<>>
=============================================================================
