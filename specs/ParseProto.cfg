SPECIFICATION Spec
CONSTANTS
  MaxItems = 4
  MaxFrames = 3
  KnownDefects = FALSE
INVARIANT LIFO
INVARIANT ScopesMirrorFrames
INVARIANT NothingLeftBehind
INVARIANT ScopeClosedAtEnd
INVARIANT Conservation
