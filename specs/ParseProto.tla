----------------------------- MODULE ParseProto -----------------------------
(***************************************************************************)
(* The contract every rule class obeys when it consumes the reader         *)
(* (DESIGN.md 4.5), as a stand-alone model with a nondeterministic parser: *)
(* activations of the back-tracking block matcher (BlockBase.match) are    *)
(* frames on a stack; a frame remembers how many items were net-consumed   *)
(* when it started (k0) and whether it opened a scoping region.  The       *)
(* environment may get items, push them back in LIFO order, start nested   *)
(* activations, finish them with success, with "no match" (only after      *)
(* restoring the reader) or by raising an exception, which then unwinds    *)
(* every frame.  TraceParseProto.tla is the same contract driven by        *)
(* recorded events of the real parser.                                     *)
(*                                                                         *)
(* KnownDefects = TRUE adds the two named deviations the pinned tree had   *)
(* (cleanup skipped for exceptions other than FortranSyntaxError); TLC     *)
(* then refutes NothingLeftBehind - the non-vacuity run.                   *)
(***************************************************************************)
EXTENDS Naturals, Sequences, FiniteSets, TLC

CONSTANTS MaxItems, MaxFrames, KnownDefects

VARIABLES k, K, frames, sd, tables, exc, status
vars == <<k, K, frames, sd, tables, exc, status>>

Excs == {"fse", "ise", "exit"}          \* FortranSyntaxError, InternalSyntaxError, SystemExit
Top == frames[Len(frames)]
Pop == SubSeq(frames, 1, Len(frames) - 1)
Base == IF Len(frames) = 0 THEN 0 ELSE Top.k0
Running == status = "run" /\ exc = "none"

Init == k = 0 /\ K = 0 /\ frames = <<>> /\ sd = 0 /\ tables = {} /\ exc = "none" /\ status = "run"

Get == /\ Running
       /\ IF k < K THEN k' = k + 1 /\ K' = K                     \* re-delivery of a pushed-back item
                   ELSE K < MaxItems /\ K' = K + 1 /\ k' = k + 1  \* a fresh item
       /\ UNCHANGED <<frames, sd, tables, exc, status>>
Put == /\ Running /\ k > Base                                     \* only items this activation consumed, last first
       /\ k' = k - 1 /\ UNCHANGED <<K, frames, sd, tables, exc, status>>

BEnter == /\ Running /\ Len(frames) < MaxFrames
          /\ \E scoping \in BOOLEAN :
               /\ frames' = Append(frames, [k0 |-> k, d0 |-> sd, sc |-> scoping, id |-> Len(frames) + 1])
               /\ sd' = IF scoping THEN sd + 1 ELSE sd
               /\ tables' = IF scoping /\ sd = 0 THEN tables \cup {Len(frames) + 1} ELSE tables
          /\ UNCHANGED <<k, K, exc, status>>
BExitOk == /\ Running /\ Len(frames) > 0 /\ k > Top.k0           \* a match consumed something
           /\ frames' = Pop /\ sd' = Top.d0
           /\ UNCHANGED <<k, K, tables, exc, status>>
BExitFail == /\ Running /\ Len(frames) > 0 /\ k = Top.k0         \* "no match" only with the reader restored
             /\ frames' = Pop /\ sd' = Top.d0
             /\ tables' = IF Top.sc THEN tables \ {Top.id} ELSE tables
             /\ UNCHANGED <<k, K, exc, status>>
Raise == /\ Running /\ \E e \in Excs : exc' = e
         /\ UNCHANGED <<k, K, frames, sd, tables, status>>
\* an exception unwinds one frame; the frame cleans up the scope it opened
Unwind == /\ status = "run" /\ exc # "none" /\ Len(frames) > 0
          /\ frames' = Pop
          /\ IF KnownDefects /\ exc # "fse"
             THEN UNCHANGED <<sd, tables>>                        \* named deviation: cleanup only for FortranSyntaxError
             ELSE /\ sd' = Top.d0 /\ tables' = IF Top.sc THEN tables \ {Top.id} ELSE tables
          /\ UNCHANGED <<k, K, exc, status>>
FinishOk == /\ Running /\ Len(frames) = 0 /\ k = K /\ K > 0 /\ status' = "ok"
            /\ UNCHANGED <<k, K, frames, sd, tables, exc>>
FinishErr == /\ status = "run" /\ exc # "none" /\ Len(frames) = 0 /\ status' = "failed"
             \* Program.__new__ removes the tables of units matched before the failure
             /\ tables' = IF KnownDefects THEN tables ELSE {}
             /\ UNCHANGED <<k, K, frames, sd, exc>>
Next == Get \/ Put \/ BEnter \/ BExitOk \/ BExitFail \/ Raise \/ Unwind \/ FinishOk \/ FinishErr
Spec == Init /\ [][Next]_vars

\* ------------------------------------------------------------------- invariants
LIFO == k >= Base /\ k <= K
ScopesMirrorFrames == exc = "none" => sd = Cardinality({i \in 1..Len(frames) : frames[i].sc})
NothingLeftBehind == status = "failed" => (sd = 0 /\ tables = {})
ScopeClosedAtEnd == status = "ok" => sd = 0
Conservation == status = "ok" => k = K
=============================================================================
