------------------------------ MODULE Perturb ------------------------------
(***************************************************************************)
(* The quantifiers of the properties as actions on a finished derivation   *)
(* of Grammar.tla (DESIGN.md 4.2).  After `done`, up to MaxEdits edits of  *)
(* the kinds in PKinds are chosen; `Expect` computes - in the              *)
(* specification, not in the harness - the ground truth the law needs:     *)
(* the order of leaves (statements, comments, directives), physical line   *)
(* numbers, whether a structurally edited stream is still well nested      *)
(* (Nest!Accepts), which statements a sentinel hides.                      *)
(*                                                                         *)
(* edit record [t, pos, a, b]                                              *)
(*   "cmt"  comment: pos statement index (Len+1 = after the last),         *)
(*          a place (1 line before, 2 trailing, 3 between continuation (5: trailing on a continued line after a literal),     *)
(*          lines of pos), b text class                                    *)
(*   "cpp"  preprocessor line(s) before statement pos; a directive form    *)
(*   "garb" statement pos replaced by garbage a, laid out over 1+b lines   *)
(*   "inc"  statements pos..a moved into an include file; b nesting flag   *)
(*   "sent" statement pos hidden behind the OpenMP sentinel; a = 1 if the  *)
(*          statement is continued over two sentinel lines                 *)
(*   "del"  structural statement pos deleted                               *)
(*   "ins"  a surplus END (a = index into InsKinds) inserted before pos    *)
(*   "ren"  END name of statement pos changed (a: 1 other name, 2 removed, *)
(*          3 added)                                                       *)
(***************************************************************************)
EXTENDS Grammar, Nest

CONSTANTS PKinds, MaxEdits, NCmtCls, NCppForms, NGarb, DirectiveCls, InsSet, MinEdits, DumpMod, NRepl, RichOnly, NeedStruct, NBrkPlaces, SplitUnits

VARIABLES ed, pd
pvars == <<out, stack, done, needs08, nlab, nname, nunit, rich, ed, pd>>

E(t, pos, a, b) == [t |-> t, pos |-> pos, a |-> a, b |-> b]
N == Len(out)

\* statements of catalogue kinds have a token count >= 2 and may be continued
Splittable(i) ==
  LET k == out[i].k v == out[i].v IN
  CASE k = "s" -> v \in SplitS [] k = "decl" -> v \in SplitDecl [] k = "use" -> v \in SplitUse [] k = "comp" -> v \in SplitComp
    [] k = "if" -> v \in SplitOpen_if [] k = "do" -> v \in SplitOpen_do [] k = "dol" -> v \in SplitOpen_dol
    [] k = "doconc" -> v \in SplitOpen_doconc [] k = "selcase" -> v \in SplitOpen_selcase [] k = "seltype" -> v \in SplitOpen_seltype
    [] k = "where" -> v \in SplitOpen_where [] k = "forall" -> v \in SplitOpen_forall [] k = "assoc" -> v \in SplitOpen_assoc
    [] OTHER -> FALSE
\* with SplitUnits the header of a subroutine / function may be continued as well (brk edits only)
SplittableB(i) == Splittable(i) \/ (SplitUnits /\ ((out[i].k = "sub" /\ out[i].v \in SplitUnit_sub) \/ (out[i].k = "fun" /\ out[i].v \in SplitUnit_fun)))
IsSimple(i) == out[i].k = "s" /\ out[i].l = 0
\* a simple statement that may be hidden behind a conditional-compilation sentinel: unlabelled, or with a label no DO refers to
IsHideable(i) == out[i].k = "s" /\ (out[i].l = 0 \/ ~\E j \in 1..N : out[j].k = "dol" /\ out[j].l = out[i].l)
Structural(i) == out[i].k \in (NOpeners \cup {"end", "endu", "enddo", "cont"})
InJoin(i) == \E j \in 1..Len(ed) : ed[j].t = "join" /\ ed[j].pos \in {i, i - 1}
HasEd(t, pos) == \E j \in 1..Len(ed) : ed[j].t = t /\ ed[j].pos = pos

StructKinds == {"del", "ins", "ren", "par"}
HasStruct == \E j \in 1..Len(ed) : ed[j].t \in StructKinds
Shifting == \E j \in 1..Len(ed) : ed[j].t \in {"del", "ins"}     \* edits that renumber the statements

\* In the NeedStruct configurations the comment / directive lines go directly in front of the statement that opens
\* the construct or unit whose END is edited (BlockBase collects them in front of the opening statement before it
\* compares the END name with it)
StructPos == ed[CHOOSE j \in 1..Len(ed) : ed[j].t \in StructKinds].pos
OpenerIdxs(p) == {j \in 1..(p - 1) : out[j].d = out[p].d /\ out[j].k \in NOpeners}
Anchor == IF NeedStruct /\ HasStruct /\ OpenerIdxs(StructPos) # {}
          THEN {CHOOSE m \in OpenerIdxs(StructPos) : \A y \in OpenerIdxs(StructPos) : y <= m} ELSE {}
AddCmt ==
  /\ "cmt" \in PKinds /\ (NeedStruct => HasStruct)
  /\ \E pos \in Ch(IF NeedStruct THEN Anchor ELSE 1..(N + 1)), place \in {1, 2, 3, 4, 5}, c \in Ch(1..NCmtCls) :
       /\ (NeedStruct => place = 1)
       \* place 4: the comment line lies between the two halves of a character literal that is continued
       \* place 5: a trailing comment on the first line of a statement that is continued directly after its first character literal
       /\ (place \in {4, 5} => pos <= N /\ ((out[pos].k = "s" /\ out[pos].v \in StrSplitS) \/ (out[pos].k = "decl" /\ out[pos].v \in StrSplitDecl)))
       /\ (place \in {2, 3} => pos <= N)
       /\ ~InJoin(pos) /\ ~Shifting
       /\ (place \in {4, 5} => ~HasEd("sent", pos) /\ ~HasEd("garb", pos) /\ ~HasEd("brk", pos))
       /\ (place = 3 => Splittable(pos))
       /\ (place = 2 => out[pos].k # "format")
       /\ (place \in {2, 3} => ~HasEd("sent", pos) /\ ~HasEd("garb", pos))
       \* at most one comment found inside a statement (trailing or in-continuation)
       /\ (place \in {3, 4, 5} => ~\E j \in 1..Len(ed) : ed[j].t = "cmt" /\ ed[j].pos = pos /\ ed[j].a \in {2, 3, 4, 5})
       \* ... except a trailing comment at the end of a statement whose first line already carries one (place 5, added earlier)
       /\ (place = 2 => ~\E j \in 1..Len(ed) : ed[j].t = "cmt" /\ ed[j].pos = pos /\ ed[j].a \in {2, 3, 4})
       /\ ed' = Append(ed, E("cmt", pos, place, c))

AddCpp ==
  /\ "cpp" \in PKinds /\ (NeedStruct => HasStruct)
  /\ ~Shifting
  \* b > 0: a second directive line (form b) directly behind the first one, at the same boundary
  /\ \E pos \in Ch(IF NeedStruct THEN Anchor ELSE 1..(N + 1)), f \in Ch(1..NCppForms) :
       \E g \in (IF NeedStruct THEN {0} ELSE {0, 1 + ((f * 7) % NCppForms)}) : ed' = Append(ed, E("cpp", pos, f, g))

AddGarb ==
  /\ "garb" \in PKinds /\ ~\E j \in 1..Len(ed) : ed[j].t = "garb"
  /\ \E pos \in Ch(1..N), g \in 1..NGarb, extra \in 0..2 :
       /\ ~\E j \in 1..Len(ed) : ed[j].t = "cmt" /\ ed[j].pos = pos /\ ed[j].a \in {2, 3, 4, 5}
       /\ (g >= 9 => extra = 0)          \* garbage 9, 10: a line that starts with '#' cannot be continued
       /\ ed' = Append(ed, E("garb", pos, g, extra))

AddInc ==
  /\ "inc" \in PKinds
  /\ \E a \in Ch(1..N), b \in Ch(1..N) :
       /\ a <= b
       \* include ranges are disjoint or properly nested (one level of nesting)
       /\ \A j \in 1..Len(ed) : ed[j].t = "inc" =>
             \/ b < ed[j].pos \/ a > ed[j].a
             \/ (ed[j].pos <= a /\ b <= ed[j].a /\ <<a, b>> # <<ed[j].pos, ed[j].a>>
                 /\ ~\E m \in 1..Len(ed) : m # j /\ ed[m].t = "inc" /\ ed[m].pos <= ed[j].pos /\ ed[j].a <= ed[m].a)
       /\ Cardinality({j \in 1..Len(ed) : ed[j].t = "inc"}) < 3
       /\ ed' = Append(ed, E("inc", a, b, 0))

AddSent ==
  /\ "sent" \in PKinds
  \* c: 0 one line; 1 continued; 2/3 with a comment / blank line between; 4/5 the continuation line starts directly after the
  \* sentinel with the statement text / with an ampersand
  \* 6: continued, with a trailing comment behind the & of the first line
  /\ \E pos \in Ch({i \in 1..N : IsHideable(i)}), c \in 0..6 :
       /\ IsHideable(pos) /\ ~HasEd("sent", pos)
       /\ ~\E j \in 1..Len(ed) : ed[j].t = "cmt" /\ ed[j].pos = pos /\ ed[j].a \in {2, 3, 4, 5}
       /\ (c >= 1 => Splittable(pos))
       /\ ed' = Append(ed, E("sent", pos, c, 0))

\* free-form layout edits (C04): "brk" continuation of statement pos (a = where, in eighths of its tokens, b = variant:
\* 0 plain &, 1 leading &, 2 comment after &, 3 blank line between, 4 comment line between, 5 both, 6 leading & in column 1);
\* "join" statement pos and pos+1 on one line with `;`; "case" change of letter case (a = style)
\* with RichOnly the edit goes to the statement that carries the non-default catalogue variant
RichPos(S) == IF RichOnly /\ (\E i \in S : out[i].v > 1) THEN {i \in S : out[i].v > 1} ELSE S
AddLayout ==
  \/ /\ "brk" \in PKinds
     \* a: 1..7 the token boundary in eighths of the statement text; 8, 9 inside its prefix (behind the label / the construct
     \* name, behind the whole prefix; a statement without prefix: as 1)
     /\ \E pos \in Ch(RichPos({i \in 1..N : SplittableB(i)})), a \in 1..NBrkPlaces, b \in 0..6 :
          /\ ~InJoin(pos) /\ ~HasEd("brk", pos)
          /\ ~\E j \in 1..Len(ed) : ed[j].pos = pos /\ ed[j].t = "cmt" /\ ed[j].a \in {2, 3}
          /\ ed' = Append(ed, E("brk", pos, a, b))
  \/ /\ "join" \in PKinds
     /\ \E pos \in Ch(1..(N - 1)) :
          /\ out[pos + 1].l = 0 /\ out[pos + 1].k # "dol" /\ out[pos].k # "format"
          /\ ~\E j \in 1..Len(ed) : ed[j].pos \in {pos, pos + 1} /\ ed[j].t \in {"brk", "join", "cmt"}
          /\ ~\E j \in 1..Len(ed) : ed[j].pos = pos - 1 /\ ed[j].t = "join"
          \* a > 0: a trailing comment of class a behind the two statements (delivered after the second one)
          /\ \E a \in (IF "cmt" \in PKinds THEN 0..NCmtCls ELSE {0}) : ed' = Append(ed, E("join", pos, a, 0))
  \/ /\ "case" \in PKinds /\ ~\E j \in 1..Len(ed) : ed[j].t = "case"
     /\ \E a \in {1, 2} : ed' = Append(ed, E("case", 0, a, 0))

\* C06: token / character / line mutations of statement pos.  a = where (in eighths of the statement),
\* b = operation: 1 delete token, 2 duplicate token, 3 swap with the next token, 4..(3+NRepl) replace the token by
\* punctuation or a keyword, 30 delete a character, 31 insert a quote, 40 delete the line, 41 duplicate it, 42 swap with next
MutOps == (1..(3 + NRepl)) \cup {30, 31, 40, 41, 42}
AddMut ==
  /\ "mut" \in PKinds
  /\ \E pos \in Ch(IF RichOnly /\ \E i \in 1..N : out[i].v > 1 THEN {i \in 1..N : out[i].v > 1} ELSE 1..N), a \in Ch(1..8), b \in Ch(MutOps) :
       /\ ~\E j \in 1..Len(ed) : ed[j] = E("mut", pos, a, b)
       /\ ed' = Append(ed, E("mut", pos, a, b))

InsKinds == <<"if", "do", "selcase", "where", "forall", "assoc", "block", "crit", "type", "iface", "sub", "fun">>
AddStruct ==
  /\ ~HasStruct
  /\ \/ /\ "del" \in PKinds /\ ed = <<>>
        /\ \E pos \in Ch({i \in 1..N : Structural(i)}) : ed' = <<E("del", pos, 0, 0)>>
     \/ /\ "ins" \in PKinds /\ ed = <<>>
        /\ \E pos \in Ch(1..(N + 1)), a \in Ch(InsSet), opener \in {0, 1} : ed' = <<E("ins", pos, a, opener)>>
     \/ /\ "ren" \in PKinds
        /\ \E pos \in Ch({i \in 1..N : out[i].k \in {"end", "endu", "enddo"}}), a \in {1, 2, 3} :
             /\ out[pos].k \in {"end", "endu", "enddo"} /\ out[pos].of # "iface"
             /\ (a \in {1, 2} => \/ (out[pos].k = "enddo" /\ out[pos].n > 0)
                                  \/ (out[pos].k = "end" /\ out[pos].x = 1)
                                  \/ (out[pos].k = "endu" /\ out[pos].x = 2))
             /\ (a = 3 => (out[pos].k = "end" /\ out[pos].of \in NExecCons /\ out[pos].x = 0)
                          \/ (out[pos].k = "enddo" /\ out[pos].n = 0))
             /\ ed' = Append(ed, E("ren", pos, a, 0))
     \* one parenthesis deleted (b = 1) or added (b = 2 opening, b = 3 closing) in statement pos, outside character context
     \/ /\ "par" \in PKinds
        /\ \E pos \in Ch(1..N), a \in Ch(1..8), b \in {1, 2, 3} : ed' = Append(ed, E("par", pos, a, b))

PStep == /\ done /\ ~pd /\ Len(ed) < MaxEdits
         /\ (AddCmt \/ AddCpp \/ AddGarb \/ AddInc \/ AddSent \/ AddStruct \/ AddLayout \/ AddMut)
         /\ UNCHANGED <<out, stack, done, needs08, nlab, nname, nunit, rich, pd>>
PFinish == /\ done /\ ~pd /\ Len(ed) >= MinEdits /\ pd' = TRUE /\ UNCHANGED <<out, stack, done, needs08, nlab, nname, nunit, rich, ed>>

PInit == GInit /\ ed = <<>> /\ pd = FALSE
PNext == (GNext /\ UNCHANGED <<ed, pd>>) \/ PStep \/ PFinish
PSpec == PInit /\ [][PNext]_pvars

(***************************************************************************)
(* Ground truth computed by the specification                              *)
(***************************************************************************)
\* the structurally edited stream (C08)
Del(s, i) == SubSeq(s, 1, i - 1) \o SubSeq(s, i + 1, Len(s))
Ins(s, i, x) == SubSeq(s, 1, i - 1) \o <<x>> \o SubSeq(s, i, Len(s))
InsRec(e) ==
  LET k == InsKinds[e.a] IN
  IF e.b = 1 THEN [k |-> k, of |-> "", v |-> 1, n |-> IF k \in {"sub", "fun", "type"} THEN 99 ELSE 0, l |-> 0, d |-> 0, x |-> 0]
  ELSE IF k \in {"sub", "fun"} THEN [k |-> "endu", of |-> k, v |-> 0, n |-> 0, l |-> 0, d |-> 0, x |-> 1]
  ELSE [k |-> "end", of |-> k, v |-> 1, n |-> 0, l |-> 0, d |-> 0, x |-> 0]
Edited ==
  IF ~HasStruct THEN out
  ELSE LET e == ed[CHOOSE j \in 1..Len(ed) : ed[j].t \in StructKinds] IN
       CASE e.t = "del" -> Del(out, e.pos)
         [] e.t = "ins" -> Ins(out, e.pos, InsRec(e))
         [] e.t = "ren" ->
              [out EXCEPT ![e.pos] =
                 IF e.a = 1 THEN [@ EXCEPT !.n = 98]
                 ELSE IF e.a = 2 THEN (IF @.k = "endu" THEN [@ EXCEPT !.x = 1] ELSE IF @.k = "enddo" THEN [@ EXCEPT !.n = 0] ELSE [@ EXCEPT !.x = 0])
                 ELSE (IF @.k = "enddo" THEN [@ EXCEPT !.n = 98] ELSE [@ EXCEPT !.x = 1, !.n = 98])]
         [] OTHER -> out
\* a statement with unbalanced parentheses is never valid (the harness skips a deletion when the statement has none)
ParEdit == \E j \in 1..Len(ed) : ed[j].t = "par"
StillValid == ~ParEdit /\ Accepts(Edited)

\* sequence of leaves expected in the tree when comments are kept (C11) / directives (C14):
\* <<"s", i>> statement i ; <<"e", j>> the line(s) of edit j
EdsAt(pos, places) == SelectSeq([j \in 1..Len(ed) |-> j],
                         LAMBDA j : \/ ed[j].pos = pos /\ ((ed[j].t = "cmt" /\ ed[j].a \in places) \/ (ed[j].t = "cpp" /\ 1 \in places))
                                    \/ ed[j].t = "join" /\ ed[j].a > 0 /\ ed[j].pos = pos - 1 /\ 2 \in places)
RECURSIVE Leaves(_)
Leaves(i) == IF i > N THEN [j \in 1..Len(EdsAt(N + 1, {1})) |-> <<"e", EdsAt(N + 1, {1})[j]>>]
             ELSE [j \in 1..Len(EdsAt(i, {1})) |-> <<"e", EdsAt(i, {1})[j]>>] \o << <<"s", i>> >>
                  \o [j \in 1..Len(EdsAt(i, {2, 3, 4, 5})) |-> <<"e", EdsAt(i, {2, 3, 4, 5})[j]>>] \o Leaves(i + 1)

\* physical lines: every statement one line, plus one for a continuation break, plus inserted lines
CppLines(f) == IF f \in {12, 13} THEN 2 ELSE IF f = 30 THEN 3 ELSE 1          \* backslash-continued forms occupy two / three lines
LinesOf(j) == IF ed[j].t = "cmt" THEN 1 ELSE CppLines(ed[j].a) + (IF ed[j].b > 0 THEN CppLines(ed[j].b) ELSE 0)
RECURSIVE SumLines(_, _)
SumLines(i, j) == IF j = 0 THEN 0
                  ELSE SumLines(i, j - 1) + (IF ed[j].pos = i /\ ((ed[j].t = "cmt" /\ ed[j].a = 1) \/ ed[j].t = "cpp") THEN LinesOf(j) ELSE 0)
PreLines(i) == SumLines(i, Len(ed))
StmtLines(i) == IF \E j \in 1..Len(ed) : ed[j].t = "cmt" /\ ed[j].pos = i /\ ed[j].a \in {3, 4} THEN 3
                ELSE IF \E j \in 1..Len(ed) : ed[j].t = "cmt" /\ ed[j].pos = i /\ ed[j].a = 5 THEN 2
                ELSE IF \E j \in 1..Len(ed) : ed[j].t = "brk" /\ ed[j].pos = i
                     THEN (IF \E j \in 1..Len(ed) : ed[j].t = "brk" /\ ed[j].pos = i /\ ed[j].b \in {3, 4, 5} THEN 3 ELSE 2)
                ELSE IF \E j \in 1..Len(ed) : ed[j].t = "garb" /\ ed[j].pos = i THEN 1 + (CHOOSE b \in 0..2 : \E j \in 1..Len(ed) : ed[j].t = "garb" /\ ed[j].pos = i /\ ed[j].b = b)
                ELSE 1
RECURSIVE LastLine(_)
LastLine(i) == IF i = 0 THEN 0 ELSE LastLine(i - 1) + PreLines(i) + StmtLines(i)
GarbPos == IF \E j \in 1..Len(ed) : ed[j].t = "garb" THEN ed[CHOOSE j \in 1..Len(ed) : ed[j].t = "garb"].pos ELSE 0

\* the quick configurations replay a deterministic 1/DumpMod sample of the exhaustive space
RECURSIVE EdHash(_)
\* (a polynomial hash: with a linear one the sample of two-edit behaviours kept only the pairs with one fixed sum of their parameters)
EdHash(j) == IF j = 0 THEN 0 ELSE (EdHash(j - 1) * 131 + ed[j].pos * 7 + ed[j].a * 31 + ed[j].b * 53 + 13) % 1000003
Selected == \/ DumpMod = 1 \/ ed = <<>>
            \/ (EdHash(Len(ed)) + Len(ed) + Len(out) * 11 + nname + nlab) % DumpMod = 0
PDump == (pd /\ Selected) => PrintT(<<"BEH", ToJson([out |-> out, needs08 |-> needs08, ed |-> ed,
                                       valid |-> StillValid, edited |-> Edited,
                                       leaves |-> Leaves(1), garbline |-> LastLine(GarbPos)])>>)

\* sanity: an unedited derivation is accepted by the reference recogniser (Grammar is a subset of L(Nest))
GrammarInNest == done => Accepts(out)
=============================================================================
