SPECIFICATION Spec
CONSTANTS
  MaxStmts = 3
  MaxDepth = 3
  MaxUnits = 1
  MaxVar = 1
  UnitKinds <- SubOnly
  ConKinds <- IfOnly
  SpecKinds <- Empty
  SimpleV <- SimpleAll
  DeclV <- Set1
  UseV <- Set1
  FormatV <- Set1
  CompV <- Set1
  TbindV <- Set1
  NameChoices <- Set0
  EndForms <- Set1
  LabelStmts = FALSE
  Contains = FALSE
  PKinds <- KJoin
  MaxEdits = 1
  InsSet <- InsSmall
  MinEdits = 0
  Randomised = FALSE
  DumpMod = 1
  NRepl = 17
  RichOnly = FALSE
  NeedStruct = FALSE
  MaxRich = 1
  NBrkPlaces = 7
  SplitUnits = FALSE
  NCmtCls = 9
  NCppForms = 30
  NGarb = 10
  DirectiveCls <- DirCls
INVARIANT WellNested
INVARIANT GrammarInNest
CONSTRAINT PDump
