SPECIFICATION Spec
CONSTANTS
  MaxStmts = 3
  MaxDepth = 3
  MaxUnits = 1
  MaxVar = 30
  UnitKinds <- SubOnly
  ConKinds <- SweepCons
  SpecKinds <- Empty
  SimpleV <- SimpleAll
  DeclV <- Set1
  UseV <- Set1
  FormatV <- Set1
  CompV <- Set1
  TbindV <- Set1
  NameChoices <- Set1
  EndForms <- Set1
  LabelStmts = FALSE
  Contains = FALSE
  PKinds <- KMut
  MaxEdits = 1
  InsSet <- InsSmall
  MinEdits = 0
  Randomised = FALSE
  DumpMod = 157
  NRepl = 17
  RichOnly = TRUE
  NeedStruct = FALSE
  MaxRich = 1
  NBrkPlaces = 7
  SplitUnits = FALSE
  NCmtCls = 9
  NCppForms = 30
  NGarb = 10
  DirectiveCls <- DirCls
INVARIANT WellNested
INVARIANT GrammarInNest
CONSTRAINT PDump
