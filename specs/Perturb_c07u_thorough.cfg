SPECIFICATION Spec
CONSTANTS
  MaxStmts = 4
  MaxDepth = 1
  MaxUnits = 2
  MaxVar = 1
  UnitKinds <- AllUnits
  ConKinds <- Empty
  SpecKinds <- Empty
  SimpleV <- Set1
  DeclV <- Set1
  UseV <- Empty
  FormatV <- Empty
  CompV <- Set1
  TbindV <- Set1
  NameChoices <- Set1
  EndForms <- Set02
  LabelStmts = FALSE
  Contains = FALSE
  PKinds <- KGarb
  MaxEdits = 1
  InsSet <- InsSmall
  MinEdits = 0
  Randomised = FALSE
  DumpMod = 2
  NRepl = 17
  RichOnly = FALSE
  NeedStruct = FALSE
  MaxRich <- Unlimited
  NBrkPlaces = 7
  SplitUnits = FALSE
  NCmtCls = 9
  NCppForms = 30
  NGarb = 10
  DirectiveCls <- DirCls
INVARIANT WellNested
INVARIANT GrammarInNest
CONSTRAINT PDump
