SPECIFICATION Spec
CONSTANTS
  MaxStmts = 3
  MaxDepth = 3
  MaxUnits = 1
  MaxVar = 1
  UnitKinds <- ExhUnits
  ConKinds <- NestCons
  SpecKinds <- ExhSpec
  SimpleV <- Set1
  DeclV <- Set1
  UseV <- Set1
  FormatV <- Set1
  CompV <- Set1
  TbindV <- Set1
  NameChoices <- Set01
  EndForms <- Set02
  LabelStmts = FALSE
  Contains = TRUE
  PKinds <- KRenCmt
  MaxEdits = 2
  InsSet <- InsSmall
  MinEdits = 2
  Randomised = FALSE
  DumpMod = 2
  NRepl = 17
  RichOnly = FALSE
  NeedStruct = TRUE
  MaxRich <- Unlimited
  NBrkPlaces = 7
  SplitUnits = FALSE
  NCmtCls = 2
  NCppForms = 2
  NGarb = 10
  DirectiveCls <- DirCls
INVARIANT WellNested
INVARIANT GrammarInNest
CONSTRAINT PDump
