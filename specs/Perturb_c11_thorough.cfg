SPECIFICATION Spec
CONSTANTS
  MaxStmts = 3
  MaxDepth = 3
  MaxUnits = 1
  MaxVar = 1
  UnitKinds <- ExhUnits0
  ConKinds <- ExhCons
  SpecKinds <- ExhSpec
  SimpleV <- Set1
  DeclV <- Set1
  UseV <- Set1
  FormatV <- Set1
  CompV <- Set1
  TbindV <- Set1
  NameChoices <- Set01
  EndForms <- Set02
  LabelStmts = FALSE
  Contains = TRUE
  PKinds <- KCmt
  MaxEdits = 1
  InsSet <- InsSmall
  MinEdits = 0
  Randomised = FALSE
  DumpMod = 2
  NRepl = 17
  RichOnly = FALSE
  NeedStruct = FALSE
  MaxRich <- Unlimited
  NBrkPlaces = 7
  SplitUnits = FALSE
  NCmtCls = 9
  NCppForms = 30
  NGarb = 10
  DirectiveCls <- DirCls
INVARIANT WellNested
INVARIANT GrammarInNest
CONSTRAINT PDump
