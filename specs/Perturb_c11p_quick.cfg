SPECIFICATION Spec
CONSTANTS
  MaxStmts = 2
  MaxDepth = 2
  MaxUnits = 1
  MaxVar = 1
  UnitKinds <- SubOnly
  ConKinds <- ExhCons
  SpecKinds <- Empty
  SimpleV <- Set1
  DeclV <- Set1
  UseV <- Set1
  FormatV <- Set1
  CompV <- Set1
  TbindV <- Set1
  NameChoices <- Set0
  EndForms <- Set1
  LabelStmts = FALSE
  Contains = FALSE
  PKinds <- KCmt
  MaxEdits = 2
  InsSet <- InsSmall
  MinEdits = 2
  Randomised = FALSE
  DumpMod = 1
  NRepl = 17
  RichOnly = FALSE
  NeedStruct = FALSE
  MaxRich <- Unlimited
  NBrkPlaces = 7
  SplitUnits = FALSE
  NCmtCls = 7
  NCppForms = 30
  NGarb = 10
  DirectiveCls <- DirCls
INVARIANT WellNested
INVARIANT GrammarInNest
CONSTRAINT PDump
