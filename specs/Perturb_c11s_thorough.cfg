SPECIFICATION Spec
CONSTANTS
  MaxStmts = 2
  MaxDepth = 3
  MaxUnits = 1
  MaxVar = 1
  UnitKinds <- SubOnly
  ConKinds <- Empty
  SpecKinds <- Empty
  SimpleV <- StrSplitS
  DeclV <- StrSplitDecl
  UseV <- Set1
  FormatV <- Set1
  CompV <- Set1
  TbindV <- Set1
  NameChoices <- Set1
  EndForms <- Set02
  LabelStmts = FALSE
  Contains = FALSE
  PKinds <- KCmt
  MaxEdits = 2
  InsSet <- InsSmall
  MinEdits = 0
  Randomised = FALSE
  DumpMod = 3
  NRepl = 17
  RichOnly = FALSE
  NeedStruct = FALSE
  MaxRich <- Unlimited
  NBrkPlaces = 7
  SplitUnits = FALSE
  NCmtCls = 9
  NCppForms = 30
  NGarb = 10
  DirectiveCls <- DirCls
INVARIANT WellNested
INVARIANT GrammarInNest
CONSTRAINT PDump
