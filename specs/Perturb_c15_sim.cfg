SPECIFICATION Spec
CONSTANTS
  MaxStmts = 30
  MaxDepth = 5
  MaxUnits = 3
  MaxVar = 30
  UnitKinds <- AllUnits
  ConKinds <- AllCons
  SpecKinds <- AllSpec
  SimpleV <- SimpleAll
  DeclV <- DeclAll
  UseV <- UseAll
  FormatV <- FormatAll
  CompV <- CompAll
  TbindV <- TbindAll
  NameChoices <- Set01
  EndForms <- Set012
  LabelStmts = TRUE
  Contains = TRUE
  InsSet <- InsAll
  MinEdits = 1
  Randomised = TRUE
  DumpMod = 1
  NRepl = 17
  RichOnly = FALSE
  NeedStruct = FALSE
  MaxRich <- Unlimited
  NBrkPlaces = 9
  SplitUnits = FALSE
  PKinds <- KSentCmt
  MaxEdits = 4
  NCmtCls = 7
  NCppForms = 30
  NGarb = 10
  DirectiveCls <- DirCls
INVARIANT WellNested
INVARIANT GrammarInNest
CONSTRAINT PDump
