------------------------------ MODULE ReaderAPI ------------------------------
(***************************************************************************)
(* What any consumer of a reader may assume (DESIGN.md 4.6, property C12): *)
(* the reader is a stream of NItems items; get_item delivers the next one, *)
(* put_item pushes the most recently delivered one back, and a consumer    *)
(* that reads ahead and restores sees an unchanged stream.  The model      *)
(* state is the integer k of the LIFO abstraction: items 1..k are with the *)
(* consumer.  TLC enumerates every walk of get/put up to MaxOps; each walk *)
(* is replayed on real readers (plain, with comments, with `;`, with       *)
(* nested INCLUDE files - where put_item is delegated to the innermost     *)
(* open reader) and the delivered item ids and the remaining stream are    *)
(* compared with the model's.                                              *)
(***************************************************************************)
EXTENDS Naturals, Sequences, TLC, Json

CONSTANTS NItems, MaxOps

VARIABLES k, ops, seen, done
vars == <<k, ops, seen, done>>

Init == k = 0 /\ ops = <<>> /\ seen = <<>> /\ done = FALSE

Get == /\ ~done /\ Len(ops) < MaxOps
       /\ IF k < NItems
          THEN /\ k' = k + 1 /\ seen' = Append(seen, k + 1)     \* delivers item k+1 (the same object on re-delivery)
          ELSE /\ k' = k /\ seen' = Append(seen, 0)             \* end of stream
       /\ ops' = Append(ops, "get") /\ UNCHANGED done
Put == /\ ~done /\ Len(ops) < MaxOps /\ k > 0
       /\ k' = k - 1 /\ seen' = seen
       /\ ops' = Append(ops, "put") /\ UNCHANGED done
Finish == /\ ~done /\ done' = TRUE /\ UNCHANGED <<k, ops, seen>>
Next == Get \/ Put \/ Finish
Spec == Init /\ [][Next]_vars

\* the consumer never holds more than was delivered, and the remaining stream is k+1..NItems
Sound == k <= NItems
Remaining == [i \in 1..(NItems - k) |-> k + i]
Dump == done => PrintT(<<"BEH", ToJson([ops |-> ops, seen |-> seen, rest |-> Remaining])>>)
=============================================================================
