SPECIFICATION Spec
CONSTANTS
  NItems = 5
  MaxOps = 7
INVARIANT Sound
CONSTRAINT Dump
