SPECIFICATION Spec
CONSTANTS
  NItems = 6
  MaxOps = 11
INVARIANT Sound
CONSTRAINT Dump
