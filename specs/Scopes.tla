------------------------------- MODULE Scopes -------------------------------
(***************************************************************************)
(* Scoping structure and intrinsic resolution (property C16).              *)
(* A behaviour builds a forest of scoping units                            *)
(*    mod  module          prog program         sub  external subprogram   *)
(*    csub contained subprogram (of mod, prog, sub)    blk BLOCK construct *)
(* makes intrinsic names local in chosen scopes (how: "decl" a type        *)
(* declaration, "only" USE m, ONLY: name, "ren" USE m, name => other,      *)
(* "wild" a bare USE m - which declares nothing) and places references     *)
(* name(args) in chosen scopes.  The ground truth is computed here:        *)
(*   Shadowed(r)  - the name is local in the scope of r or in a host       *)
(*   TableTree    - the forest of scopes                                   *)
(* The real parser must build that forest of symbol tables and represent   *)
(* reference r as an intrinsic function reference iff ~Shadowed(r).        *)
(***************************************************************************)
EXTENDS Naturals, Sequences, FiniteSets, TLC, Json

CONSTANTS MaxScopes, MaxDecls, MaxRefs, Names, Hows, DumpMod, Positions

VARIABLES sc, decls, refs, done
vars == <<sc, decls, refs, done>>

Tops == {"mod", "prog", "sub"}
ExecKinds == {"prog", "sub", "csub", "blk"}

Init == sc = <<>> /\ decls = <<>> /\ refs = <<>> /\ done = FALSE

\* a new scoping unit: top level, or inside an existing one.  "ibody" is an interface body (a scoping unit of its own,
\* nested in the unit whose specification part holds the interface block); tw # 0 marks a separate module procedure
\* (F2008): a contained subprogram that carries the NAME of interface body tw of the same module - two sibling
\* scopes with one name.
AddScope ==
  /\ ~done /\ Len(sc) < MaxScopes
  /\ \/ \E k \in Tops :
          /\ (k = "prog" => ~\E i \in 1..Len(sc) : sc[i].k = "prog")
          /\ sc' = Append(sc, [k |-> k, par |-> 0, tw |-> 0])
     \/ \E p \in 1..Len(sc), k \in {"csub", "blk", "ibody"} :
          \* contained subprograms live in modules, programs and (external or module) subprograms;
          \* an internal subprogram has no CONTAINS of its own; BLOCKs live where statements execute
          /\ (k = "csub" => sc[p].k \in {"mod", "prog", "sub"} \/ (sc[p].k = "csub" /\ sc[sc[p].par].k = "mod"))
          /\ (k = "blk" => sc[p].k \in ExecKinds)
          /\ (k = "ibody" => sc[p].k \in {"mod", "prog", "sub", "csub"})
          /\ \E tw \in 0..Len(sc) :
               /\ (tw # 0 => k = "csub" /\ sc[p].k = "mod" /\ sc[tw].k = "ibody" /\ sc[tw].par = p
                              /\ ~\E j \in 1..Len(sc) : sc[j].tw = tw)
               /\ sc' = Append(sc, [k |-> k, par |-> p, tw |-> tw])
  /\ UNCHANGED <<decls, refs, done>>

AddDecl ==
  /\ ~done /\ Len(decls) < MaxDecls
  /\ \E s \in 1..Len(sc), n \in Names, h \in Hows :
       /\ ~\E j \in 1..Len(decls) : decls[j].s = s /\ decls[j].n = n
       /\ (h # "decl" => sc[s].k \notin {"blk", "ibody"})   \* USE statements are not generated inside BLOCK / interface bodies
       /\ decls' = Append(decls, [s |-> s, n |-> n, h |-> h])
  /\ UNCHANGED <<sc, refs, done>>

AddRef ==
  /\ ~done /\ Len(refs) < MaxRefs
  /\ \E s \in 1..Len(sc), n \in Names, p \in Positions :     \* p: the syntactic position of the reference
       /\ sc[s].k \in ExecKinds
       /\ refs' = Append(refs, [s |-> s, n |-> n, p |-> p])
  /\ UNCHANGED <<sc, decls, done>>

Finish == /\ ~done /\ Len(sc) > 0 /\ Len(refs) > 0 /\ done' = TRUE /\ UNCHANGED <<sc, decls, refs>>
Next == AddScope \/ AddDecl \/ AddRef \/ Finish
Spec == Init /\ [][Next]_vars

(***************************************************************************)
(* ground truth                                                            *)
(***************************************************************************)
RECURSIVE Hosts(_)
Hosts(s) == IF s = 0 THEN {} ELSE {s} \cup Hosts(sc[s].par)
Local(s, n) == \E j \in 1..Len(decls) : decls[j].s = s /\ decls[j].n = n /\ decls[j].h # "wild"
Shadowed(r) == \E s \in Hosts(refs[r].s) : Local(s, refs[r].n)
Expect == [r \in 1..Len(refs) |-> ~Shadowed(r)]

\* sanity of the ground truth: a declaration in a sibling or inner scope has no effect
SiblingsDoNotShadow == done => \A r \in 1..Len(refs) :
    Shadowed(r) => \E j \in 1..Len(decls) : decls[j].n = refs[r].n /\ decls[j].s \in Hosts(refs[r].s)

Selected == DumpMod = 1 \/ (Len(sc) * 7 + Len(decls) * 3 + Len(refs) * 5
                            + (IF Len(decls) > 0 THEN decls[1].s ELSE 0) + refs[Len(refs)].s * 11) % DumpMod = 0
Dump == (done /\ Selected) => PrintT(<<"BEH", ToJson([sc |-> sc, decls |-> decls, refs |-> refs, intrinsic |-> Expect])>>)
=============================================================================
