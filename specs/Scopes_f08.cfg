SPECIFICATION Spec
CONSTANTS
  MaxScopes = 2
  MaxDecls = 2
  MaxRefs = 2
  Names <- F08Names
  Hows <- HowAll
  Positions <- Pos1
  DumpMod = 16
INVARIANT SiblingsDoNotShadow
CONSTRAINT Dump
