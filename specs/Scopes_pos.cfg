SPECIFICATION Spec
CONSTANTS
  MaxScopes = 2
  MaxDecls = 1
  MaxRefs = 1
  Names <- OneName
  Hows <- HowAll
  Positions <- PosAll
  DumpMod = 1
INVARIANT SiblingsDoNotShadow
CONSTRAINT Dump
