SPECIFICATION Spec
CONSTANTS
  MaxScopes = 3
  MaxDecls = 2
  MaxRefs = 2
  Names <- Specific
  Hows <- HowAll
  Positions <- Pos1
  DumpMod = 16
INVARIANT SiblingsDoNotShadow
CONSTRAINT Dump
