SPECIFICATION Spec
CONSTANTS
  MaxScopes = 3
  MaxDecls = 2
  MaxRefs = 2
  Names <- OneName
  Hows <- HowAll
  DumpMod = 4
INVARIANT SiblingsDoNotShadow
CONSTRAINT Dump
