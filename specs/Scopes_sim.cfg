SPECIFICATION Spec
CONSTANTS
  MaxScopes = 7
  MaxDecls = 5
  MaxRefs = 6
  Names <- NameSet
  Hows <- HowAll
  DumpMod = 1
INVARIANT SiblingsDoNotShadow
CONSTRAINT Dump
