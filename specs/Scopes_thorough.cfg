SPECIFICATION Spec
CONSTANTS
  MaxScopes = 3
  MaxDecls = 2
  MaxRefs = 2
  Names <- Three
  Hows <- HowAll
  Positions <- Pos1
  DumpMod = 40
INVARIANT SiblingsDoNotShadow
CONSTRAINT Dump
