SPECIFICATION Spec
CONSTANTS
  MaxScopes = 4
  MaxDecls = 2
  MaxRefs = 2
  Names <- NameSet
  Hows <- HowAll
  DumpMod = 1
INVARIANT SiblingsDoNotShadow
CONSTRAINT Dump
