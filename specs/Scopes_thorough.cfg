SPECIFICATION Spec
CONSTANTS
  MaxScopes = 4
  MaxDecls = 2
  MaxRefs = 2
  Names <- NameSet
  Hows <- HowAll
  Positions <- Pos1
  DumpMod = 3
INVARIANT SiblingsDoNotShadow
CONSTRAINT Dump
