SPECIFICATION Spec
CONSTRAINT Done
