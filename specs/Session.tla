------------------------------ MODULE Session ------------------------------
(***************************************************************************)
(* The laws of the library's public API as guards on recorded API events   *)
(* (DESIGN.md 4.9).  A session trace is what the harness OBSERVED when it  *)
(* drove the real library: Parse / Print / Toks / Copy events with small   *)
(* integer digests, followed by Claim events that name the law which the   *)
(* specification that generated the case (Grammar/Perturb/...) says must   *)
(* hold.  TLC replays the trace, learns the partial functions              *)
(*    parseOf : <<text, cfg>> -> outcome     printOf : tree -> text        *)
(*    toksOf  : text -> token digest         copyOf  : <<tree, how>> -> .. *)
(* checks that they ARE functions (a parse is a function of its input,     *)
(* C09) and evaluates every claim.  The trace specification is total: a    *)
(* failed guard prints  <<"REJECT", trace id, event index, clause>>  and   *)
(* the run carries on, so one TLC run returns a verdict for every trace.   *)
(***************************************************************************)
EXTENDS Naturals, Sequences, FiniteSets, TLC, Json, IOUtils

Trace == ndJsonDeserialize(IOEnv.TRACE_FILE)
N == Len(Trace)

VARIABLES l, tid, parseOf, printOf, toksOf, copyOf, obsOf, nbad, nclaims
vars == <<l, tid, parseOf, printOf, toksOf, copyOf, obsOf, nbad, nclaims>>

Empty == [x \in {} |-> 0]
Has(f, k) == k \in DOMAIN f
Ev == Trace[l]
Is(e) == Ev.e = e

Init == /\ l = 1 /\ tid = 0 /\ parseOf = Empty /\ printOf = Empty /\ toksOf = Empty /\ copyOf = Empty /\ obsOf = Empty
        /\ nbad = 0 /\ nclaims = 0

Fail(clause) == /\ PrintT(<<"REJECT", tid, l, clause>>) /\ nbad' = nbad + 1

Begin == /\ tid' = Ev.t /\ parseOf' = Empty /\ printOf' = Empty /\ toksOf' = Empty /\ copyOf' = Empty /\ obsOf' = Empty
         /\ UNCHANGED <<nbad, nclaims>>

\* ---------------------------------------------------------------- observations
Outcome(ev) == [res |-> ev.res, tree |-> ev.tree, st |-> ev.st, sci |-> ev.sci, line |-> ev.line, q |-> ev.q]
SameOutcome(a, b) == a.res = b.res /\ a.st = b.st /\ a.line = b.line /\ a.q = b.q

ParseEv ==
  LET key == <<Ev.src, Ev.cfg>> o == Outcome(Ev) IN
  /\ IF Has(parseOf, key) /\ ~SameOutcome(parseOf[key], o)
     THEN Fail("Deterministic") /\ UNCHANGED parseOf
     ELSE /\ parseOf' = (key :> o) @@ parseOf /\ UNCHANGED nbad
  /\ UNCHANGED <<tid, printOf, toksOf, copyOf, obsOf, nclaims>>

PrintEv ==
  /\ IF Has(printOf, Ev.tree) /\ printOf[Ev.tree].text # Ev.text
     THEN Fail("PrintDeterministic") /\ UNCHANGED printOf
     ELSE /\ printOf' = (Ev.tree :> [text |-> Ev.text, tci |-> Ev.tci]) @@ printOf /\ UNCHANGED nbad
  /\ UNCHANGED <<tid, parseOf, toksOf, copyOf, obsOf, nclaims>>

ToksEv ==
  /\ toksOf' = (Ev.text :> Ev.tk) @@ toksOf
  /\ UNCHANGED <<tid, parseOf, printOf, copyOf, obsOf, nbad, nclaims>>

CopyEv ==
  /\ copyOf' = (<<Ev.tree, Ev.how>> :> [ok |-> Ev.ok, st |-> Ev.st, text |-> Ev.text, disjoint |-> Ev.disjoint,
                                         indep |-> Ev.indep, wf |-> Ev.wf]) @@ copyOf
  /\ UNCHANGED <<tid, parseOf, printOf, toksOf, obsOf, nbad, nclaims>>

\* any further observation of a tree (leaf sequence, table forest, ...) as a digest
ObsEv ==
  /\ obsOf' = (<<Ev.tree, Ev.key>> :> Ev.val) @@ obsOf
  /\ UNCHANGED <<tid, parseOf, printOf, toksOf, copyOf, nbad, nclaims>>

\* ------------------------------------------------------------------------ the laws
\* each law yields "" when it holds and otherwise the name of the first failing clause
P(s, c) == parseOf[<<s, c>>]

Fixpoint(s, c) ==        \* C01
  IF ~Has(parseOf, <<s, c>>) THEN "missing-parse"
  ELSE IF P(s, c).res # "ok" THEN "not-accepted"
  ELSE IF ~Has(printOf, P(s, c).tree) THEN "missing-print"
  ELSE LET s1 == printOf[P(s, c).tree].text IN
       IF ~Has(parseOf, <<s1, c>>) THEN "missing-reparse"
       ELSE IF P(s1, c).res # "ok" THEN "output-not-accepted"
       ELSE IF P(s1, c).st # P(s, c).st THEN "structure-differs"
       ELSE IF ~Has(printOf, P(s1, c).tree) THEN "missing-reprint"
       ELSE IF printOf[P(s1, c).tree].text # s1 THEN "text-not-fixpoint"
       ELSE ""

TokensPreserved(s, c) == \* C02
  IF ~Has(parseOf, <<s, c>>) \/ P(s, c).res # "ok" THEN "not-accepted"
  ELSE IF ~Has(printOf, P(s, c).tree) THEN "missing-print"
  ELSE LET s1 == printOf[P(s, c).tree].text IN
       IF ~Has(toksOf, s) \/ ~Has(toksOf, s1) THEN "missing-tokens"
       ELSE IF toksOf[s] # toksOf[s1] THEN "tokens-differ" ELSE ""

SameTree(a, ca, b, cb, ci) ==   \* C04 C05 C11 C13 C14 C15
  IF ~Has(parseOf, <<a, ca>>) \/ ~Has(parseOf, <<b, cb>>) THEN "missing-parse"
  ELSE IF P(a, ca).res # "ok" THEN "reference-not-accepted"
  ELSE IF P(b, cb).res # "ok" THEN "variant-not-accepted"
  ELSE IF ci /\ P(a, ca).sci # P(b, cb).sci THEN "tree-differs"
  ELSE IF ~ci /\ P(a, ca).st # P(b, cb).st THEN "tree-differs"
  ELSE ""

SameTextCI(a, ca, b, cb) ==   \* C04: the regenerated text is the same up to letter case outside character literals
  IF ~Has(parseOf, <<a, ca>>) \/ ~Has(parseOf, <<b, cb>>) THEN "missing-parse"
  ELSE IF P(a, ca).res # "ok" \/ P(b, cb).res # "ok" THEN "not-accepted"
  ELSE IF ~Has(printOf, P(a, ca).tree) \/ ~Has(printOf, P(b, cb).tree) THEN "missing-print"
  ELSE IF printOf[P(a, ca).tree].tci # printOf[P(b, cb).tree].tci THEN "text-differs" ELSE ""

Reject(s, c) ==          \* C08, C17 (2008-only construct under the 2003 parser)
  IF ~Has(parseOf, <<s, c>>) THEN "missing-parse"
  ELSE IF P(s, c).res = "ok" THEN "accepted" ELSE ""

Accept(s, c) ==
  IF ~Has(parseOf, <<s, c>>) THEN "missing-parse"
  ELSE IF P(s, c).res # "ok" THEN "not-accepted" ELSE ""

FseAt(s, c, line, q) ==  \* C07
  IF ~Has(parseOf, <<s, c>>) THEN "missing-parse"
  ELSE IF P(s, c).res # "fse" THEN "not-a-syntax-error"
  ELSE IF P(s, c).line # line THEN "wrong-line"
  ELSE IF P(s, c).q # q THEN "wrong-quoted-text" ELSE ""

Clean(s, c) ==           \* C06
  IF ~Has(parseOf, <<s, c>>) THEN "missing-parse"
  ELSE IF P(s, c).res \notin {"ok", "fse"} THEN "escape" ELSE ""

StdMonotone(s, c3, c8, exact) ==   \* C17
  IF ~Has(parseOf, <<s, c3>>) \/ ~Has(parseOf, <<s, c8>>) THEN "missing-parse"
  ELSE IF P(s, c3).res # "ok" THEN ""          \* conditional on acceptance by the 2003 parser
  ELSE IF P(s, c8).res # "ok" THEN "f2008-rejects"
  ELSE IF ~Has(printOf, P(s, c3).tree) \/ ~Has(printOf, P(s, c8).tree) THEN "missing-print"
  ELSE IF printOf[P(s, c3).tree].tci # printOf[P(s, c8).tree].tci THEN "text-differs"
  ELSE IF exact /\ printOf[P(s, c3).tree].text # printOf[P(s, c8).tree].text THEN "text-case-differs"
  ELSE ""

CopyFaithful(s, c, how) ==  \* C18
  IF ~Has(parseOf, <<s, c>>) \/ P(s, c).res # "ok" THEN "not-accepted"
  ELSE LET t == P(s, c).tree IN
       IF ~Has(copyOf, <<t, how>>) \/ ~Has(printOf, t) THEN "missing-copy"
       ELSE LET k == copyOf[<<t, how>>] IN
            IF ~k.ok THEN "copy-raised"
            ELSE IF k.text # printOf[t].text THEN "copy-text-differs"
            ELSE IF k.st # P(s, c).st THEN "copy-structure-differs"
            ELSE IF ~k.wf THEN "copy-not-well-formed"
            ELSE IF ~k.disjoint THEN "copy-shares-nodes"
            ELSE IF ~k.indep THEN "copy-not-independent"
            ELSE ""

ObsEq(s, c, key, val) ==    \* C11 C14 C16: an observation of the tree equals the specification's prediction
  IF ~Has(parseOf, <<s, c>>) THEN "missing-parse"
  ELSE IF P(s, c).res # "ok" THEN "not-accepted"
  ELSE IF ~Has(obsOf, <<P(s, c).tree, key>>) THEN "missing-observation"
  ELSE IF obsOf[<<P(s, c).tree, key>>] # val THEN "observation-differs" ELSE ""

ObsSame(s, c, key, s2, c2) ==   \* C14: the tree with the inserted nodes removed is the tree of the original
  IF ~Has(parseOf, <<s, c>>) \/ ~Has(parseOf, <<s2, c2>>) THEN "missing-parse"
  ELSE IF P(s2, c2).res # "ok" THEN "reference-not-accepted"
  ELSE IF P(s, c).res # "ok" THEN "variant-not-accepted"
  ELSE IF ~Has(obsOf, <<P(s, c).tree, key>>) THEN "missing-observation"
  ELSE IF obsOf[<<P(s, c).tree, key>>] # P(s2, c2).st THEN "tree-differs" ELSE ""

Law(ev) ==
  CASE ev.law = "fixpoint" -> Fixpoint(ev.src, ev.cfg)
    [] ev.law = "tokens" -> TokensPreserved(ev.src, ev.cfg)
    [] ev.law = "sametree" -> SameTree(ev.src, ev.cfg, ev.src2, ev.cfg2, ev.ci)
    [] ev.law = "sametextci" -> SameTextCI(ev.src, ev.cfg, ev.src2, ev.cfg2)
    [] ev.law = "reject" -> Reject(ev.src, ev.cfg)
    [] ev.law = "accept" -> Accept(ev.src, ev.cfg)
    [] ev.law = "fseat" -> FseAt(ev.src, ev.cfg, ev.line, ev.q)
    [] ev.law = "clean" -> Clean(ev.src, ev.cfg)
    [] ev.law = "stdmono" -> StdMonotone(ev.src, ev.cfg, ev.cfg2, ev.exact)
    [] ev.law = "copy" -> CopyFaithful(ev.src, ev.cfg, ev.how)
    [] ev.law = "obseq" -> ObsEq(ev.src, ev.cfg, ev.key, ev.val)
    [] ev.law = "obssame" -> ObsSame(ev.src, ev.cfg, ev.key, ev.src2, ev.cfg2)
    [] OTHER -> "unknown-law"

Claim ==
  LET c == Law(Ev) IN
  /\ IF c = "" THEN UNCHANGED nbad ELSE Fail(c)
  /\ nclaims' = nclaims + 1
  /\ UNCHANGED <<tid, parseOf, printOf, toksOf, copyOf, obsOf>>

Next == /\ l <= N /\ l' = l + 1
        /\ CASE Is("begin") -> Begin
             [] Is("parse") -> ParseEv
             [] Is("print") -> PrintEv
             [] Is("toks") -> ToksEv
             [] Is("copy") -> CopyEv
             [] Is("claim") -> Claim
             [] Is("obs") -> ObsEv
             [] OTHER -> Fail("unknown-event") /\ UNCHANGED <<tid, parseOf, printOf, toksOf, copyOf, obsOf, nclaims>>

Spec == Init /\ [][Next]_vars
Done == (l = N + 1) => PrintT(<<"DONE", nbad, nclaims, N>>)
=============================================================================
