------------------------------- MODULE Streams -------------------------------
(***************************************************************************)
(* Every statement stream up to MaxItems over an alphabet of structural    *)
(* items (openers, ENDs, intermediate statements, labelled DO forms,       *)
(* plain and labelled statements), judged by the reference recogniser      *)
(* Nest.tla.  Used by property C08: the real parser must reject every      *)
(* stream Nest rejects - for ALL short streams, not only for single edits  *)
(* of valid programs (DESIGN.md 4.10, in place of a transcription of       *)
(* BlockBase.match: the real matcher itself is compared with Nest).        *)
(* The stream is the body of  PROGRAM p ... END PROGRAM p  (or of a        *)
(* SUBROUTINE / FUNCTION, constant Wrap).                                  *)
(***************************************************************************)
EXTENDS Naturals, Sequences, TLC, Json, Nest

CONSTANTS MaxItems, Items, DumpMod, Wrap        \* Wrap: kind of the enclosing unit ("prog", "sub", "fun")
VARIABLES st, done

I(k, of, n, l, x) == [k |-> k, of |-> of, v |-> 1, n |-> n, l |-> l, d |-> 0, x |-> x]
\* the alphabet, by name
Item(a) ==
  CASE a = "s" -> I("s", "", 0, 0, 0)
    [] a = "s10" -> I("s", "", 0, 10, 0)
    [] a = "if" -> I("if", "", 0, 0, 0)
    [] a = "ifn" -> I("if", "", 1, 0, 0)
    [] a = "else" -> I("else", "if", 0, 0, 0)
    [] a = "endif" -> I("end", "if", 0, 0, 0)
    [] a = "endifn" -> I("end", "if", 1, 0, 1)
    [] a = "do" -> I("do", "", 0, 0, 0)
    [] a = "enddo" -> I("enddo", "", 0, 0, 0)
    [] a = "dol10" -> I("dol", "", 0, 10, 0)
    [] a = "dol20" -> I("dol", "", 0, 20, 0)
    [] a = "cont10" -> I("cont", "dol", 0, 10, 0)
    [] a = "cont20" -> I("cont", "dol", 0, 20, 0)
    [] a = "enddo10" -> I("enddo", "dol", 0, 10, 0)
    [] a = "blk" -> I("block", "", 0, 0, 0)
    [] a = "endblk" -> I("end", "block", 0, 0, 0)
    [] a = "sel" -> I("selcase", "", 0, 0, 0)
    [] a = "case" -> I("case", "selcase", 0, 0, 0)
    [] a = "endsel" -> I("end", "selcase", 0, 0, 0)
    \* a surplus END of the enclosing unit, with kind and name (END SUBROUTINE u1 is an action-stmt in R214: the
    \* nonblock-DO rules must still not take it as the terminator of a nest, C824 / C826)
    [] a = "endu" -> [I("endu", Wrap, 1, 0, 2) EXCEPT !.v = 0]

Init == st = <<>> /\ done = FALSE
Next == \/ /\ ~done /\ Len(st) < MaxItems /\ \E a \in Items : st' = Append(st, a) /\ done' = FALSE
        \/ /\ ~done /\ Len(st) > 0 /\ done' = TRUE /\ st' = st
Spec == Init /\ [][Next]_<<st, done>>

Prog == I(Wrap, "", 1, 0, 0)
EndProg == [I("endu", Wrap, 1, 0, 2) EXCEPT !.v = 0]
Whole == <<Prog>> \o [i \in 1..Len(st) |-> Item(st[i])] \o <<EndProg>>
Valid == Accepts(Whole)

RECURSIVE Hash(_)
Hash(i) == IF i = 0 THEN 7 ELSE (Hash(i - 1) * 31 + (CHOOSE n \in 1..Len(st[i]) : n = Len(st[i])) * 17 + i) % 1000003
Selected == DumpMod = 1 \/ (Hash(Len(st)) + Len(st)) % DumpMod = 0
Dump == (done /\ Selected) => PrintT(<<"BEH", ToJson([st |-> st, valid |-> Valid, wrap |-> Wrap])>>)
=============================================================================
