SPECIFICATION Spec
CONSTANTS
  MaxItems = 6
  Items <- DoItems
  DumpMod = 97
CONSTRAINT Dump
