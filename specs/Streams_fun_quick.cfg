SPECIFICATION Spec
CONSTANTS
  MaxItems = 6
  Items <- UnitEndItems
  Wrap = "fun"
  DumpMod = 13
CONSTRAINT Dump
