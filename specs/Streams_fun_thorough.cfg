SPECIFICATION Spec
CONSTANTS
  MaxItems = 7
  Items <- UnitEndItems
  Wrap = "fun"
  DumpMod = 5
CONSTRAINT Dump
