SPECIFICATION Spec
CONSTANTS
  MaxItems = 4
  Items <- AllItems
  Wrap = "prog"
  DumpMod = 41
CONSTRAINT Dump
