SPECIFICATION Spec
CONSTANTS
  MaxItems = 4
  Items <- AllItems
  DumpMod = 41
CONSTRAINT Dump
