SPECIFICATION Spec
CONSTANTS
  MaxItems = 3
  Items <- AllItems
  DumpMod = 1
CONSTRAINT Dump
