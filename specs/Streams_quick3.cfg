SPECIFICATION Spec
CONSTANTS
  MaxItems = 3
  Items <- AllItems
  Wrap = "prog"
  DumpMod = 1
CONSTRAINT Dump
