SPECIFICATION Spec
CONSTANTS
  MaxItems = 6
  Items <- UnitEndItems
  Wrap = "sub"
  DumpMod = 13
CONSTRAINT Dump
