SPECIFICATION Spec
CONSTANTS
  MaxItems = 7
  Items <- UnitEndItems
  Wrap = "sub"
  DumpMod = 5
CONSTRAINT Dump
