SPECIFICATION Spec
CONSTANTS
  MaxItems = 5
  Items <- AllItems
  Wrap = "prog"
  DumpMod = 17
CONSTRAINT Dump
