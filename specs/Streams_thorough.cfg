SPECIFICATION Spec
CONSTANTS
  MaxItems = 5
  Items <- AllItems
  DumpMod = 3
CONSTRAINT Dump
