SPECIFICATION Spec
CONSTANTS
  MaxItems = 5
  Items <- AllItems
  DumpMod = 17
CONSTRAINT Dump
