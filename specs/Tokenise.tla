------------------------------ MODULE Tokenise ------------------------------
(***************************************************************************)
(* The placeholder mechanism of fparser2 (DESIGN.md 4.10):                 *)
(* string_replace_map(line) replaces, in this order,                       *)
(*   1. every character literal whose text is not a bare word by           *)
(*      <quote>_F2PY_STRING_CONSTANT_i_<quote>      (one key per text),    *)
(*   2. every real literal with an exponent by F2PY_REAL_CONSTANT_i_,      *)
(*   3. the text of every TOP-LEVEL bracketed group that is not a bare     *)
(*      word by F2PY_EXPR_TUPLE_i   (one key per text, brackets kept),     *)
(* and returns the map key -> original text (with inner keys expanded);    *)
(* calling the map on a string puts the original text back.  Every rule    *)
(* class matches on the placeholder form and hands repmap(substring) to    *)
(* its children, so C01/C02/C03 all rest on                                *)
(*       Restore(Replace(line)) = line      for every line.                *)
(*                                                                         *)
(* Lines are sequences of tokens: "a" a name, "op" an operator, "c" a      *)
(* comma, brackets, character literals S1 ('p q'), S1d ("p q": the same    *)
(* text, other delimiter), S2 ('r+s'), Ss ('x': a bare word, not           *)
(* replaced), exponent literals E1, E2.  TLC enumerates every well         *)
(* bracketed line up to MaxLen (and long lines by simulation), checks the  *)
(* law of this model, and exports the predicted placeholder form; the real *)
(* string_replace_map must produce that form and the real map must        *)
(* restore the line.                                                       *)
(***************************************************************************)
EXTENDS Naturals, Sequences, FiniteSets, TLC, Json

CONSTANTS MaxLen, MinLen, Alphabet
VARIABLES line, done

Opens == {"(", "["}
Closes == {")", "]"}
CloserOf(o) == IF o = "(" THEN ")" ELSE "]"
Strs == {"S1", "S1d", "S2", "Ss"}
TextOf(t) == CASE t = "S1" -> "pq" [] t = "S1d" -> "pq" [] t = "S2" -> "rs" [] OTHER -> "x"
Exps == {"E1", "E2"}

\* well-bracketed prefix bookkeeping
RECURSIVE StackAt(_, _)
StackAt(l, i) == IF i = 0 THEN <<>> ELSE
   LET st == StackAt(l, i - 1) t == l[i] IN
   IF t \in Opens THEN Append(st, CloserOf(t))
   ELSE IF t \in Closes /\ Len(st) > 0 /\ st[Len(st)] = t THEN SubSeq(st, 1, Len(st) - 1)
   ELSE st
WellFormed(l) == /\ StackAt(l, Len(l)) = <<>>
                 /\ \A i \in 1..Len(l) : l[i] \in Closes => (Len(StackAt(l, i - 1)) > 0 /\ StackAt(l, i - 1)[Len(StackAt(l, i - 1))] = l[i])

Init == line = <<>> /\ done = FALSE
Next == \/ /\ ~done /\ Len(line) < MaxLen
           /\ \E t \in Alphabet :
                /\ (t \in Closes => Len(StackAt(line, Len(line))) > 0 /\ StackAt(line, Len(line))[Len(StackAt(line, Len(line)))] = t)
                /\ line' = Append(line, t)
           /\ done' = FALSE
        \/ /\ ~done /\ Len(line) > 0 /\ Len(line) >= MinLen /\ StackAt(line, Len(line)) = <<>> /\ done' = TRUE /\ line' = line
Spec == Init /\ [][Next]_<<line, done>>

(***************************************************************************)
(* Replace: the three passes.  A key is [k |-> "S"|"R"|"T", i |-> index].  *)
(* Tokens of the placeholder form: plain tokens, <<"S", i, delimiter>>,    *)
(* <<"R", i>>, <<"T", i>>.                                                 *)
(***************************************************************************)
\* first-seen numbering: index of x in the sequence of distinct values seen so far
RECURSIVE IndexIn(_, _, _)
IndexIn(seq, x, i) == IF i > Len(seq) THEN 0 ELSE IF seq[i] = x THEN i ELSE IndexIn(seq, x, i + 1)

RECURSIVE Pass1(_, _, _, _)   \* strings: l, position, distinct texts so far, output
Pass1(l, i, seen, out) ==
  IF i > Len(l) THEN [out |-> out, seen |-> seen]
  ELSE IF l[i] \in Strs /\ l[i] # "Ss"
       THEN LET tx == TextOf(l[i])
                seen2 == IF IndexIn(seen, tx, 1) = 0 THEN Append(seen, tx) ELSE seen
            IN Pass1(l, i + 1, seen2, Append(out, <<"S", IndexIn(seen2, tx, 1), IF l[i] = "S1d" THEN "dq" ELSE "sq">>))
       ELSE Pass1(l, i + 1, seen, Append(out, <<l[i]>>))

RECURSIVE Pass2(_, _, _, _)   \* exponent literals
Pass2(l, i, seen, out) ==
  IF i > Len(l) THEN [out |-> out, seen |-> seen]
  ELSE IF l[i][1] \in Exps
       THEN LET seen2 == IF IndexIn(seen, l[i][1], 1) = 0 THEN Append(seen, l[i][1]) ELSE seen
            IN Pass2(l, i + 1, seen2, Append(out, <<"R", IndexIn(seen2, l[i][1], 1)>>))
       ELSE Pass2(l, i + 1, seen, Append(out, l[i]))

\* a bracketed group's text is a bare word if it is empty, one name, or one real-constant key
BareWord(content) == content = <<>> \/ (Len(content) = 1 /\ (content[1] = <<"a">> \/ content[1][1] = "R"))

RECURSIVE DepthAt(_, _)
DepthAt(l, i) == IF i = 0 THEN 0 ELSE
   LET d == DepthAt(l, i - 1) IN IF l[i][1] \in Opens THEN d + 1 ELSE IF l[i][1] \in Closes THEN d - 1 ELSE d
\* index of the bracket closing the group opened at i (well-formed lines)
RECURSIVE CloseIdx(_, _, _)
CloseIdx(l, i, j) == IF DepthAt(l, j) = DepthAt(l, i - 1) THEN j ELSE CloseIdx(l, i, j + 1)

RECURSIVE Pass3(_, _, _, _)   \* top-level groups
Pass3(l, i, seen, out) ==
  IF i > Len(l) THEN [out |-> out, seen |-> seen]
  ELSE IF l[i][1] \in Opens
       THEN LET j == CloseIdx(l, i, i)
                content == SubSeq(l, i + 1, j - 1)
            IN IF BareWord(content)
               THEN Pass3(l, j + 1, seen, out \o SubSeq(l, i, j))
               ELSE LET seen2 == IF IndexIn(seen, content, 1) = 0 THEN Append(seen, content) ELSE seen
                    IN Pass3(l, j + 1, seen2, out \o <<l[i], <<"T", IndexIn(seen2, content, 1)>>, l[j]>>)
       ELSE Pass3(l, i + 1, seen, Append(out, l[i]))

Replace(l) ==
  LET p1 == Pass1(l, 1, <<>>, <<>>)
      p2 == Pass2(p1.out, 1, <<>>, <<>>)
      p3 == Pass3(p2.out, 1, <<>>, <<>>)
  IN [line |-> p3.out, strs |-> p1.seen, reals |-> p2.seen, tuples |-> p3.seen]

\* Restore: expand tuple keys (their text may contain string / real keys), then real keys, then string keys
StrTok(tx, q) == IF tx = "pq" THEN (IF q = "dq" THEN "S1d" ELSE "S1") ELSE "S2"
RECURSIVE Expand(_, _, _)
Expand(l, i, r) ==
  IF i > Len(l) THEN <<>>
  ELSE LET t == l[i] IN
       (IF t[1] = "T" THEN Expand(r.tuples[t[2]], 1, r)
        ELSE IF t[1] = "R" THEN <<r.reals[t[2]]>>
        ELSE IF t[1] = "S" THEN <<StrTok(r.strs[t[2]], t[3])>>
        ELSE <<t[1]>>) \o Expand(l, i + 1, r)
Restore(r) == Expand(r.line, 1, r)

\* the law
Lossless == done => Restore(Replace(line)) = line
\* distinct texts get distinct keys, equal texts share one
KeysFunctional == done => LET r == Replace(line) IN
    /\ \A i, j \in 1..Len(r.tuples) : i # j => r.tuples[i] # r.tuples[j]
    /\ \A i, j \in 1..Len(r.strs) : i # j => r.strs[i] # r.strs[j]

Dump == done => LET r == Replace(line) IN
           PrintT(<<"BEH", ToJson([line |-> line, form |-> r.line, nstr |-> Len(r.strs), nreal |-> Len(r.reals), ntup |-> Len(r.tuples)])>>)
=============================================================================
