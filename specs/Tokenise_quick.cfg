SPECIFICATION Spec
CONSTANTS
  MaxLen = 5
  MinLen = 0
  Alphabet <- AllToks
INVARIANT Lossless
INVARIANT KeysFunctional
CONSTRAINT Dump
