SPECIFICATION Spec
CONSTANTS
  MaxLen = 60
  MinLen = 25
  Alphabet <- AllToks
INVARIANT Lossless
INVARIANT KeysFunctional
CONSTRAINT Dump
