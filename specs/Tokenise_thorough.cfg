SPECIFICATION Spec
CONSTANTS
  MaxLen = 8
  MinLen = 0
  Alphabet <- CoreToks
INVARIANT Lossless
INVARIANT KeysFunctional
CONSTRAINT Dump
