SPECIFICATION Spec
CONSTRAINT Done
