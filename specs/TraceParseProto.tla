-------------------------- MODULE TraceParseProto --------------------------
(***************************************************************************)
(* Trace validation of the parser <-> reader <-> symbol-table protocol     *)
(* (DESIGN.md 4.5).  The events are recorded by harness-side wrappers      *)
(* (mbt/probe.py) around FortranReaderBase.next/put_item, BlockBase.match, *)
(* Line.parse_line and SymbolTables.enter_scope/exit_scope/remove while    *)
(* the real parser runs; every event carries its arguments, so each state  *)
(* has one successor.  The abstraction: reader items are numbered in order *)
(* of first delivery; at every instant the items delivered and not pushed  *)
(* back are exactly 1..k.                                                  *)
(*                                                                         *)
(* PROPERTY clauses (a rejection is a violation of a listed property):     *)
(*   GetFresh GetAgain Eof      the reader's answers (C12, C13)            *)
(*   FinishOk                   conservation: leaves = 1..K in order       *)
(*                              (C10 C11 C14), scope closed (C16)          *)
(*   FinishFse                  scope closed, tables as before (C09),      *)
(*                              error line = furthest line (C07)           *)
(*   Escape                     only FortranSyntaxError leaves (C06)       *)
(* MECHANISM clauses (how the pinned code achieves it; reported as notes): *)
(*   PutLIFO BExitFail BExitOk BRaiseLeak StExit MemoOnce                  *)
(* The specification is total: a failed guard prints                       *)
(*   <<"REJECT", trace id, event index, clause>>  and skips to the next    *)
(* begin event.                                                            *)
(***************************************************************************)
EXTENDS Naturals, Sequences, FiniteSets, TLC, Json, IOUtils

Trace == ndJsonDeserialize(IOEnv.TRACE_FILE)
N == Len(Trace)

VARIABLES l,        \* next event index
          k, K,     \* net-consumed, delivered
          frames,   \* stack of BlockBase.match activations [k0, d0]
          sd,       \* scope depth
          tables,   \* set of top-level symbol table names
          memo,     \* item -> set of classes already matched against it
          maxline,  \* last physical line of the furthest item delivered
          tid, skip, nbad, ntr
vars == <<l, k, K, frames, sd, tables, memo, maxline, tid, skip, nbad, ntr>>
state == <<k, K, frames, sd, tables, memo, maxline>>

Init == /\ l = 1 /\ k = 0 /\ K = 0 /\ frames = <<>> /\ sd = 0 /\ tables = {} /\ memo = <<>> /\ maxline = 0
        /\ tid = 0 /\ skip = FALSE /\ nbad = 0 /\ ntr = 0

Ev == Trace[l]
Is(e) == Ev.e = e

Fail(clause) == /\ PrintT(<<"REJECT", tid, l, clause>>)
                /\ skip' = TRUE /\ nbad' = nbad + 1
                /\ UNCHANGED <<k, K, frames, sd, tables, memo, maxline, tid, ntr>>
Keep == UNCHANGED <<tid, skip, nbad, ntr>>

Begin == /\ k' = 0 /\ K' = 0 /\ frames' = <<>> /\ sd' = 0 /\ tables' = {} /\ memo' = <<>> /\ maxline' = 0
         /\ tid' = Ev.t /\ skip' = FALSE /\ ntr' = ntr + 1 /\ UNCHANGED nbad

Top == frames[Len(frames)]
Pop == SubSeq(frames, 1, Len(frames) - 1)

Step ==
  CASE Is("get") ->
        IF Ev.f
        THEN \* a fresh item: everything delivered so far is consumed.  (Spans may go backwards: a comment found
             \* between continuation lines is delivered after its statement, an included file counts its own lines.)
             IF k = K /\ Ev.i = K + 1 /\ Ev.first <= Ev.last
             THEN /\ k' = k + 1 /\ K' = K + 1 /\ maxline' = (IF Ev.last > maxline THEN Ev.last ELSE maxline)
                  /\ UNCHANGED <<frames, sd, tables, memo>> /\ Keep
             ELSE Fail("GetFresh")
        ELSE \* a re-delivery returns the same object that was pushed back last
             IF k < K /\ Ev.i = k + 1
             THEN /\ k' = k + 1 /\ UNCHANGED <<K, frames, sd, tables, memo, maxline>> /\ Keep
             ELSE Fail("GetAgain")
    [] Is("put") ->
        IF Ev.i = k /\ k > 0
        THEN /\ k' = k - 1 /\ UNCHANGED <<K, frames, sd, tables, memo, maxline>> /\ Keep
        ELSE Fail("PutLIFO")
    [] Is("eof") -> IF k = K THEN UNCHANGED state /\ Keep ELSE Fail("Eof")
    [] Is("benter") -> /\ frames' = Append(frames, [k0 |-> k, d0 |-> sd])
                       /\ UNCHANGED <<k, K, sd, tables, memo, maxline>> /\ Keep
    [] Is("bfail") ->
        IF Len(frames) > 0 /\ Top.k0 = k /\ Top.d0 = sd
        THEN /\ frames' = Pop /\ UNCHANGED <<k, K, sd, tables, memo, maxline>> /\ Keep
        ELSE Fail("BExitFail")
    [] Is("bok") ->
        IF /\ Len(frames) > 0 /\ Top.d0 = sd
           /\ Len(Ev.items) = k - Top.k0
           /\ \A j \in 1..Len(Ev.items) : Ev.items[j] = Top.k0 + j
        THEN /\ frames' = Pop /\ UNCHANGED <<k, K, sd, tables, memo, maxline>> /\ Keep
        ELSE Fail("BExitOk")
    [] Is("braise") ->
        IF Len(frames) > 0 /\ Top.d0 = sd
        THEN /\ frames' = Pop /\ UNCHANGED <<k, K, sd, tables, memo, maxline>> /\ Keep
        ELSE Fail("BRaiseLeak")
    [] Is("stenter") -> /\ sd' = sd + 1
                        /\ tables' = IF sd = 0 THEN tables \cup {Ev.n} ELSE tables
                        /\ UNCHANGED <<k, K, frames, memo, maxline>> /\ Keep
    [] Is("stexit") -> IF sd > 0 THEN /\ sd' = sd - 1 /\ UNCHANGED <<k, K, frames, tables, memo, maxline>> /\ Keep ELSE Fail("StExit")
    [] Is("stremove") -> /\ tables' = IF Ev.top THEN tables \ {Ev.n} ELSE tables
                         /\ UNCHANGED <<k, K, frames, sd, memo, maxline>> /\ Keep
    [] Is("compute") ->
        IF Ev.i \notin DOMAIN memo \/ Ev.c \notin memo[Ev.i]
        THEN /\ memo' = (IF Ev.i \in DOMAIN memo THEN [memo EXCEPT ![Ev.i] = @ \cup {Ev.c}] ELSE memo @@ (Ev.i :> {Ev.c}))
             /\ UNCHANGED <<k, K, frames, sd, tables, maxline>> /\ Keep
        ELSE Fail("MemoOnce")
    [] Is("fin") ->
        IF Ev.s = "ok" THEN
             \* conservation: every delivered item is a leaf of the tree exactly once, in order;
             \* all scopes closed; the model's table set is the real one
             IF /\ Len(frames) = 0 /\ sd = 0 /\ Ev.d = 0 /\ k = K
                /\ Len(Ev.leaves) = K /\ \A j \in 1..K : Ev.leaves[j] = j
                /\ Cardinality(tables) = Ev.nt
             THEN UNCHANGED state /\ Keep ELSE Fail("FinishOk")
        ELSE IF Ev.s = "fse" THEN
             \* nothing left behind; the error names the furthest physical line consumed
             IF Len(frames) = 0 /\ sd = 0 /\ Ev.d = 0 /\ tables = {} /\ Ev.nt = 0 /\ (Ev.line = maxline \/ Ev.line = 0)
             THEN UNCHANGED state /\ Keep ELSE Fail("FinishFse")
        ELSE Fail("Escape")
    [] OTHER -> Fail("unknown-event")

Next == /\ l <= N /\ l' = l + 1
        /\ IF Is("begin") THEN Begin
           ELSE IF skip THEN UNCHANGED <<k, K, frames, sd, tables, memo, maxline, tid, skip, nbad, ntr>>
           ELSE Step

Spec == Init /\ [][Next]_vars
Done == (l = N + 1) => PrintT(<<"DONE", nbad, ntr, N>>)
=============================================================================
