SPECIFICATION Spec
CONSTANTS
  Stmts <- S11
  MaxBreaks = 2
  MaxExtras = 1
  ContChars <- CC2
INVARIANT RoundTrip
CONSTRAINT Dump
