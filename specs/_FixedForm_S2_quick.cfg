SPECIFICATION Spec
CONSTANTS
  Stmts <- S2
  MaxBreaks = 2
  MaxExtras = 1
  ContChars <- CC2
INVARIANT RoundTrip
CONSTRAINT Dump
