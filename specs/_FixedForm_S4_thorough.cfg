SPECIFICATION Spec
CONSTANTS
  Stmts <- S4
  MaxBreaks = 2
  MaxExtras = 2
  ContChars <- CC5
INVARIANT RoundTrip
CONSTRAINT Dump
