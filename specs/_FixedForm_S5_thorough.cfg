SPECIFICATION Spec
CONSTANTS
  Stmts <- S5
  MaxBreaks = 2
  MaxExtras = 2
  ContChars <- CC5
INVARIANT RoundTrip
CONSTRAINT Dump
