SPECIFICATION Spec
CONSTANTS
  Stmts <- S6
  MaxBreaks = 2
  MaxExtras = 1
  ContChars <- CC2
INVARIANT RoundTrip
CONSTRAINT Dump
