SPECIFICATION Spec
CONSTANTS
  Stmts <- S8
  MaxBreaks = 2
  MaxExtras = 2
  ContChars <- CC5
INVARIANT RoundTrip
CONSTRAINT Dump
