SPECIFICATION Spec
CONSTANTS
  Stmts <- S9
  MaxBreaks = 2
  MaxExtras = 1
  ContChars <- CC2
INVARIANT RoundTrip
CONSTRAINT Dump
