SPECIFICATION Spec
CONSTANTS
  Stmts <- S11
  MaxBreaks = 2
  MaxExtras = 1
INVARIANT RoundTrip
INVARIANT CommentsKept
CONSTRAINT Dump
