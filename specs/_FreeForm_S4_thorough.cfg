SPECIFICATION Spec
CONSTANTS
  Stmts <- S4
  MaxBreaks = 2
  MaxExtras = 2
INVARIANT RoundTrip
INVARIANT CommentsKept
CONSTRAINT Dump
