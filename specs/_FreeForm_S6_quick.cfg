SPECIFICATION Spec
CONSTANTS
  Stmts <- S6
  MaxBreaks = 1
  MaxExtras = 2
INVARIANT RoundTrip
INVARIANT CommentsKept
CONSTRAINT Dump
