SPECIFICATION Spec
CONSTANTS
  Stmts <- S6
  MaxBreaks = 2
  MaxExtras = 2
INVARIANT RoundTrip
INVARIANT CommentsKept
CONSTRAINT Dump
