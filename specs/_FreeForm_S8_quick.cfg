SPECIFICATION Spec
CONSTANTS
  Stmts <- S8
  MaxBreaks = 1
  MaxExtras = 2
INVARIANT RoundTrip
INVARIANT CommentsKept
CONSTRAINT Dump
