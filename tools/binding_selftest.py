#!/venv/bin/python
"""Demonstrates that the trace specifications are bound to the implementation:
 1. a genuine protocol trace of a real parse is accepted by TraceParseProto.tla;
 2. the same trace with ONE recorded field corrupted (an item id in a push-back, the scope depth of an
    exit, the leaf list at the end) is rejected, at the corrupted event, with the expected clause;
 3. the trace recorded with one wrapper removed (put_item not recorded) is rejected;
 4. a session trace with one digest altered is rejected by Session.tla.
Exit 0 when all of that is observed."""
import sys, json, copy
sys.path.insert(0, "/verif")
from mbt import probe, proto, session, common
from mbt.framework import Check

SRC = "program p\n  ! c\n  do 10 i = 1, 2\n    if (x > 0) then\n      y = sin(x)\n    end if\n  10 continue\ncontains\n  subroutine s\n  end subroutine s\nend program p\n"


def main():
    chk = Check("SELFTEST", "model_checking", "quick")
    ev, o, t = probe.record(1, SRC, "f2008", ignore_comments=False)
    assert o["res"] == "ok"
    ok = True
    rej = proto.validate(chk, [ev])
    print("genuine trace: %d events, rejections %s" % (len(ev), rej))
    ok &= rej == []
    # 2. corruptions
    def corrupt(name, fn, want):
        e2 = copy.deepcopy(ev)
        e2[0]["t"] = 2
        fn(e2)
        r = proto.validate(chk, [e2])
        print("%-34s -> %s" % (name, r))
        return bool(r) and r[0][1] in want
    i_put = next(i for i, e in enumerate(ev) if e["e"] == "put")
    ok &= corrupt("push-back of a different item", lambda e: e[i_put].__setitem__("i", e[i_put]["i"] + 1), {"PutLIFO"})
    i_bok = max(i for i, e in enumerate(ev) if e["e"] == "bok" and len(e["items"]) > 2)
    ok &= corrupt("matcher result misses an item", lambda e: e[i_bok]["items"].pop(), {"BExitOk"})
    ok &= corrupt("a leaf missing from the tree", lambda e: e[-1]["leaves"].pop(3), {"FinishOk"})
    i_exit = next(i for i, e in enumerate(ev) if e["e"] == "stexit")
    ok &= corrupt("scope exit not recorded", lambda e: e.pop(i_exit), {"BExitOk", "BExitFail", "FinishOk", "BRaiseLeak"})
    # 3. one wrapper removed: no put events at all
    ok &= corrupt("put_item wrapper removed", lambda e: [e.remove(x) for x in [y for y in e if y["e"] == "put"]], {"GetAgain", "GetFresh", "BExitFail", "BExitOk"})
    # 4. session trace
    evs = [{"e": "begin", "t": 1},
           {"e": "parse", "src": 1, "cfg": 1, "res": "ok", "tree": 1, "st": 5, "sci": 5, "line": 0, "q": 0},
           {"e": "print", "tree": 1, "text": 2, "tci": 2},
           {"e": "parse", "src": 2, "cfg": 1, "res": "ok", "tree": 2, "st": 5, "sci": 5, "line": 0, "q": 0},
           {"e": "print", "tree": 2, "text": 2, "tci": 2},
           {"e": "claim", "law": "fixpoint", "src": 1, "cfg": 1}]
    r = session.validate(chk, evs, name="selftest_ok")
    print("genuine session: %s" % r)
    ok &= r == []
    evs2 = copy.deepcopy(evs)
    evs2[3]["st"] = 6
    r = session.validate(chk, evs2, name="selftest_bad")
    print("session with one digest altered: %s" % r)
    ok &= r == [(1, "structure-differs")]
    print("BINDING SELFTEST", "PASSED" if ok else "FAILED")
    return 0 if ok else 1


if __name__ == "__main__":
    sys.exit(main())
