#!/venv/bin/python
"""Vacuity guard: runs the exhaustive configurations with TLC -coverage and lists, per specification,
how often every action was taken; an action that is never taken means the properties attached to it were
never exercised.  Writes /verif/evidence_coverage.json and exits 1 if an action of a model was never taken."""
import sys, json
sys.path.insert(0, "/verif")
from mbt import tlc, programs, layouts, common
import os

RUNS = [("MCGrammar.tla", "Grammar_exh_quick.cfg", {}), ("MCGrammar.tla", "Grammar_sweep_spec.cfg", {}), ("MCPerturb.tla", "Perturb_c11_quick.cfg", {}),
        ("MCPerturb.tla", "Perturb_c08_quick.cfg", {}), ("MCPerturb.tla", "Perturb_c13_quick.cfg", {}), ("MCPerturb.tla", "Perturb_c15_quick.cfg", {}),
        ("MCPerturb.tla", "Perturb_c04_quick.cfg", {}), ("MCPerturb.tla", "Perturb_c06_exec_quick.cfg", {}),
        ("MCLifecycle.tla", "Lifecycle_3.cfg", {}), ("ParseProto.tla", "ParseProto.cfg", {}), ("MCScopes.tla", "Scopes_pos.cfg", {}),
        ("ReaderAPI.tla", "ReaderAPI_quick.cfg", {}), ("MCTokenise.tla", "Tokenise_quick.cfg", {}), ("MCExpr.tla", "Expr_quick.cfg", {}), ("MCStreams.tla", "Streams_quick.cfg", {})]
# actions that a given configuration switches off on purpose
EXPECTED_OFF = {
    "Grammar_exh_quick.cfg": {"EnumBody", "ModProc", "FormatStmt"}, "Grammar_sweep_spec.cfg": {"Simple", "OpenCon", "Mid", "CloseCon", "ContainsStmt"},
    "Perturb_c11_quick.cfg": {"EnumBody", "ModProc"}, "Perturb_c08_quick.cfg": {"EnumBody", "ModProc"}, "Perturb_c13_quick.cfg": {"EnumBody", "ModProc"},
    "Perturb_c15_quick.cfg": {"EnumBody", "ModProc"}, "Perturb_c04_quick.cfg": {"EnumBody", "ModProc"},
    "Perturb_c06_exec_quick.cfg": {"EnumBody", "ModProc", "ContainsStmt", "OpenSpecCon", "TypeBody", "CloseSpecCon"},
}


def main():
    programs.ensure_generated()
    layouts.gen_tla(os.path.join(common.SPECS, "SourceForm_gen.tla"))
    report = {}
    bad = 0
    for spec, cfg, kw in RUNS:
        r = tlc.run(spec, cfg, coverage=True, timeout=6000, **kw)
        acts = {a: n for a, n in r.coverage.items() if a not in ("Init", "GInit", "PInit")}
        never = sorted(a for a, n in acts.items() if n == 0 and a not in EXPECTED_OFF.get(cfg, set()))
        report[cfg] = {"distinct": r.distinct, "actions": acts, "never_taken": never}
        print("%-32s distinct=%-9d never taken: %s" % (cfg, r.distinct, never or "-"))
        bad += len(never)
    json.dump(report, open(os.path.join(common.VERIF, "evidence_coverage.json"), "w"), indent=1)
    return 1 if bad else 0


if __name__ == "__main__":
    sys.exit(main())
