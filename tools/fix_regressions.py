#!/usr/bin/env python3
"""Show that the checks report each repaired defect again when its repair is taken out.

For every 'fixed' entry of known_findings.json (or the commits given) a scratch worktree of /repo
is made at HEAD with that one commit reverted (git revert -n), the check of the entry's property is
run against it (FPARSER_SRC), and the number of violations is reported.  Nothing is changed in /repo.
usage: fix_regressions.py [--tier quick] [--full-catalogue] [commit ...]"""
import os, sys, json, subprocess, argparse


def sh(cmd, cwd=None, env=None, timeout=7200):
    e = dict(os.environ)
    if env:
        e.update(env)
    p = subprocess.run(cmd, shell=True, cwd=cwd, env=e, capture_output=True, text=True, timeout=timeout)
    return p.returncode, p.stdout + p.stderr


def main():
    ap = argparse.ArgumentParser()
    ap.add_argument("--tier", default="quick")
    ap.add_argument("--full-catalogue", action="store_true")
    ap.add_argument("--checks", default=None)
    ap.add_argument("commits", nargs="*")
    a = ap.parse_args()
    kf = json.load(open("/verif/known_findings.json"))["findings"]
    fixed = [f for f in kf if f.get("status") == "fixed" and (not a.commits or f["commit"] in a.commits)]
    out = {}
    for f in fixed:
        c = f["commit"]
        wt = "/tmp/unfix_%s" % c
        sh("git -C /repo worktree remove --force %s" % wt)
        sh("git -C /repo worktree add -q --detach %s HEAD" % wt)
        try:
            rc, o = sh("git revert -n %s" % c, cwd=wt)
            if rc != 0:
                print(c, f["property"], "cannot be reverted on its own:", o.strip().splitlines()[-1][:120], flush=True)
                out[c] = "not revertible"
                continue
            env = {"FPARSER_SRC": wt + "/src", "VERIF_WORK_SUFFIX": "unfix_" + c}
            if a.full_catalogue:
                env["VERIF_CAT_STRIDE_QUICK"] = "1"
            for chk in (a.checks.split(",") if a.checks else [f["property"]]):
                rc, o = sh("./check %s --tier %s" % (chk, a.tier), cwd="/verif", env=env)
                n = sum(1 for l in o.splitlines() if l.startswith("VIOLATION"))
                print(c, chk, "exit", rc, "violations", n, "|", f["what"][:90], flush=True)
                out["%s:%s" % (c, chk)] = {"exit": rc, "violations": n}
                if rc not in (0, 1):
                    out["%s:%s" % (c, chk)]["tail"] = o[-1500:]
        finally:
            sh("git -C /repo worktree remove --force %s" % wt)
            sh("rm -rf /verif/.work/mut_unfix_%s" % c)
    path = "/verif/seeded/FIX_REGRESSIONS.json"
    allres = json.load(open(path)) if os.path.exists(path) else {}
    allres.update(out)
    json.dump(allres, open(path, "w"), indent=1)


if __name__ == "__main__":
    main()
