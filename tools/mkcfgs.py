#!/usr/bin/env python3
"""Writes the Perturb_*.cfg files (committed; rerun after changing the table)."""
import os
SPECS = os.path.join(os.path.dirname(os.path.dirname(os.path.abspath(__file__))), "specs")
BASE = dict(MaxStmts=3, MaxDepth=3, MaxUnits=1, MaxVar=1, UnitKinds="ExhUnits", ConKinds="ExhCons", SpecKinds="ExhSpec",
            SimpleV="Set1", DeclV="Set1", UseV="Set1", FormatV="Set1", CompV="Set1", TbindV="Set1",
            NameChoices="Set01", EndForms="Set02", LabelStmts="FALSE", Contains="TRUE",
            PKinds="KCmt", MaxEdits=1, InsSet="InsSmall", MinEdits=0, Randomised="FALSE", DumpMod=1, NRepl=17, RichOnly="FALSE", NeedStruct="FALSE", MaxRich="<- Unlimited", NBrkPlaces=7, SplitUnits="FALSE")
SIM = dict(MaxStmts=30, MaxDepth=5, MaxUnits=3, MaxVar=30, UnitKinds="AllUnits", ConKinds="AllCons", SpecKinds="AllSpec",
           SimpleV="SimpleAll", DeclV="DeclAll", UseV="UseAll", FormatV="FormatAll", CompV="CompAll", TbindV="TbindAll",
           NameChoices="Set01", EndForms="Set012", LabelStmts="TRUE", Contains="TRUE", InsSet="InsAll", MinEdits=1, Randomised="TRUE", DumpMod=1, NRepl=17, RichOnly="FALSE", NeedStruct="FALSE", MaxRich="<- Unlimited", NBrkPlaces=9, SplitUnits="FALSE")
TABLE = {
    "Perturb_c11_quick": dict(BASE, UnitKinds="ExhUnits0", PKinds="KCmt", MaxEdits=1, DumpMod=16),
    "Perturb_c11_thorough": dict(BASE, UnitKinds="ExhUnits0", PKinds="KCmt", MaxEdits=1, DumpMod=2),
    "Perturb_c11_sim": dict(SIM, PKinds="KCmt", MaxEdits=5),
    # two statements on one line (';') with a trailing comment behind them
    "Perturb_c11j_quick": dict(BASE, PKinds="KCmtJoin", MaxEdits=1, DumpMod=9),
    "Perturb_c11j_thorough": dict(BASE, PKinds="KCmtJoin", MaxEdits=1, DumpMod=1),
    # comment placements on the statements that hold a character literal (the literal continued around a comment line, a trailing
    # comment on a line continued after the literal): one such statement per program, every placement
    "Perturb_c11s_quick": dict(BASE, PKinds="KCmt", MaxEdits=1, MaxStmts=2, UnitKinds="SubOnly", ConKinds="Empty", SpecKinds="Empty", Contains="FALSE",
                               SimpleV="StrSplitS", DeclV="StrSplitDecl", MaxRich="<- Unlimited", NameChoices="Set1", EndForms="Set02", DumpMod=3),
    "Perturb_c11s_thorough": dict(BASE, PKinds="KCmt", MaxEdits=2, MaxStmts=2, UnitKinds="SubOnly", ConKinds="Empty", SpecKinds="Empty", Contains="FALSE",
                                  SimpleV="StrSplitS", DeclV="StrSplitDecl", MaxRich="<- Unlimited", NameChoices="Set1", EndForms="Set02", DumpMod=3),
    # two comment lines at one boundary (a plain one and a directive-form one, in both orders), in front of every kind of statement
    "Perturb_c11p_quick": dict(BASE, PKinds="KCmt", MaxEdits=2, MinEdits=2, MaxStmts=2, MaxDepth=2, UnitKinds="SubOnly", SpecKinds="Empty", Contains="FALSE",
                               NameChoices="Set0", EndForms="Set1", NCmtCls=7, DumpMod=1),
    "Perturb_c14_quick": dict(BASE, UnitKinds="ExhUnits0", PKinds="KCpp", MaxEdits=1, DumpMod=16),
    "Perturb_c14_thorough": dict(BASE, UnitKinds="ExhUnits0", PKinds="KCpp", MaxEdits=1, DumpMod=3),
    "Perturb_c14_sim": dict(SIM, PKinds="KCmtCpp", MaxEdits=5),
    "Perturb_c07_quick": dict(BASE, UnitKinds="ExhUnits0", PKinds="KGarb", MaxEdits=1, DumpMod=8),
    "Perturb_c07_thorough": dict(BASE, UnitKinds="ExhUnits0", PKinds="KGarb", MaxEdits=1, DumpMod=1),
    "Perturb_c07_sim": dict(SIM, PKinds="KGarbLay", MaxEdits=4),
    # garbage in every position of sequences of two program units of every kind (a headerless main program first or last ...)
    "Perturb_c07u_quick": dict(BASE, PKinds="KGarb", MaxEdits=1, MaxStmts=4, MaxDepth=1, MaxUnits=2, UnitKinds="AllUnits", ConKinds="Empty", SpecKinds="Empty",
                               UseV="Empty", FormatV="Empty", NameChoices="Set1", EndForms="Set02", Contains="FALSE", DumpMod=41),
    "Perturb_c07u_thorough": dict(BASE, PKinds="KGarb", MaxEdits=1, MaxStmts=4, MaxDepth=1, MaxUnits=2, UnitKinds="AllUnits", ConKinds="Empty", SpecKinds="Empty",
                                  UseV="Empty", FormatV="Empty", NameChoices="Set1", EndForms="Set02", Contains="FALSE", DumpMod=2),
    "Perturb_c08_quick": dict(BASE, PKinds="KStruct", MaxEdits=1, ConKinds="NestCons", DumpMod=11),
    "Perturb_c08b_quick": dict(BASE, PKinds="KRenCmt", MaxEdits=2, MinEdits=2, NeedStruct="TRUE", ConKinds="NestCons", DumpMod=2, NCmtCls=2, NCppForms=2),
    "Perturb_c08b_thorough": dict(BASE, PKinds="KRenCmt", MaxEdits=2, MinEdits=2, NeedStruct="TRUE", ConKinds="NestCons", DumpMod=1, NCmtCls=3, NCppForms=4),
    "Perturb_c08_thorough": dict(BASE, PKinds="KStruct", MaxEdits=1, ConKinds="NestCons", DumpMod=2),
    "Perturb_c08_sim": dict(SIM, PKinds="KStructCmt", MaxEdits=3),
    # the construct kinds the first family leaves out (FORALL, ASSOCIATE, CRITICAL, SELECT TYPE, DO CONCURRENT) and TYPE / INTERFACE / ENUM definitions
    # a surplus / missing parenthesis at every token boundary of every opener / construct-part variant, one construct per program
    "Perturb_c08p_quick": dict(BASE, MaxStmts=2, MaxDepth=2, MaxRich="= 1", MaxVar=30, UnitKinds="SubOnly", ConKinds="AllCons", SpecKinds="Empty", PKinds="KPar", MaxEdits=1,
                               NameChoices="Set0", EndForms="Set1", Contains="FALSE", DumpMod=1),
    "Perturb_c08p_thorough": dict(BASE, MaxStmts=2, MaxDepth=2, MaxRich="= 1", MaxVar=30, UnitKinds="SubOnly", ConKinds="AllCons", SpecKinds="Empty", PKinds="KPar", MaxEdits=1,
                                  NameChoices="Set01", EndForms="Set02", Contains="FALSE", DumpMod=1),
    # ... and of every subroutine / function header variant
    "Perturb_c08u_quick": dict(BASE, MaxStmts=1, MaxDepth=1, MaxRich="= 1", MaxVar=30, UnitKinds="SubFun", ConKinds="Empty", SpecKinds="Empty", PKinds="KPar", MaxEdits=1,
                               NameChoices="Set0", EndForms="Set02", Contains="FALSE", DumpMod=1),
    "Perturb_c08c_quick": dict(BASE, PKinds="KStruct", MaxEdits=1, ConKinds="NestCons2", SpecKinds="AllSpec", UnitKinds="SubMod", DumpMod=23),
    "Perturb_c08c_thorough": dict(BASE, PKinds="KStruct", MaxEdits=1, ConKinds="NestCons2", SpecKinds="AllSpec", UnitKinds="SubMod", DumpMod=3),
    "Perturb_c13_quick": dict(BASE, UnitKinds="ExhUnits0", PKinds="KInc", MaxEdits=2, DumpMod=32),
    "Perturb_c13_thorough": dict(BASE, UnitKinds="ExhUnits0", PKinds="KInc", MaxEdits=2, MaxStmts=4, DumpMod=12),
    "Perturb_c13_sim": dict(SIM, PKinds="KInc", MaxEdits=3),
    "Perturb_c04_quick": dict(BASE, UnitKinds="ExhUnits0", PKinds="KLayout1", MaxEdits=1, DumpMod=9),
    "Perturb_c04_thorough": dict(BASE, UnitKinds="ExhUnits0", PKinds="KLayout1", MaxEdits=1, DumpMod=2),
    "Perturb_c04_sim": dict(SIM, PKinds="KLayout", MaxEdits=8, MinEdits=4),
    # every catalogue variant (at most one non-default variant per program) continued at every token boundary, in every continuation style
    "Perturb_c04v_exec_quick": dict(BASE, MaxStmts=2, MaxRich="= 1", MaxVar=30, UnitKinds="SubOnly", ConKinds="SweepCons", SpecKinds="Empty", SimpleV="SimpleAll", PKinds="KBrk",
                                    NameChoices="Set1", EndForms="Set1", Contains="FALSE", RichOnly="TRUE", DumpMod=23),
    "Perturb_c04v_decl_quick": dict(BASE, MaxStmts=2, MaxRich="= 1", MaxVar=30, UnitKinds="SweepUnits", ConKinds="Empty", SpecKinds="Empty", DeclV="DeclAll", UseV="UseAll",
                                    PKinds="KBrk", NameChoices="Set1", EndForms="Set1", Contains="FALSE", RichOnly="TRUE", DumpMod=11),
    "Perturb_c04v_type_quick": dict(BASE, MaxStmts=3, MaxRich="= 1", MaxVar=30, UnitKinds="ModOnly", ConKinds="Empty", SpecKinds="AllSpec", CompV="CompAll", TbindV="TbindAll",
                                    PKinds="KBrk", NameChoices="Set1", EndForms="Set1", Contains="FALSE", RichOnly="TRUE", DumpMod=11),
    "Perturb_c04v_exec_thorough": dict(BASE, MaxStmts=2, MaxRich="= 1", MaxVar=30, UnitKinds="SubOnly", ConKinds="SweepCons", SpecKinds="Empty", SimpleV="SimpleAll", PKinds="KBrk",
                                       NameChoices="Set1", EndForms="Set1", Contains="FALSE", RichOnly="TRUE", DumpMod=1),
    "Perturb_c04v_decl_thorough": dict(BASE, MaxStmts=2, MaxRich="= 1", MaxVar=30, UnitKinds="SweepUnits", ConKinds="Empty", SpecKinds="Empty", DeclV="DeclAll", UseV="UseAll",
                                       PKinds="KBrk", NameChoices="Set1", EndForms="Set1", Contains="FALSE", RichOnly="TRUE", DumpMod=1),
    "Perturb_c04v_type_thorough": dict(BASE, MaxStmts=3, MaxRich="= 1", MaxVar=30, UnitKinds="ModOnly", ConKinds="Empty", SpecKinds="AllSpec", CompV="CompAll", TbindV="TbindAll",
                                       PKinds="KBrk", NameChoices="Set1", EndForms="Set1", Contains="FALSE", RichOnly="TRUE", DumpMod=2),
    # a continuation inside the prefix of a statement (behind its label, behind / inside 'name:'): labelled and named constructs and statements
    "Perturb_c04l_quick": dict(BASE, UnitKinds="SubOnly", SpecKinds="Empty", LabelStmts="TRUE", PKinds="KBrk", NBrkPlaces=9, Contains="FALSE", EndForms="Set1", DumpMod=7),
    "Perturb_c04l_thorough": dict(BASE, UnitKinds="SubOnly", SpecKinds="Empty", LabelStmts="TRUE", PKinds="KBrk", NBrkPlaces=9, Contains="FALSE", EndForms="Set02", DumpMod=1),
    # every layout edit on every subroutine / function header variant (prefixes, argument lists, suffixes in both orders)
    "Perturb_c04u_quick": dict(BASE, MaxStmts=1, MaxDepth=1, MaxRich="= 1", MaxVar=30, UnitKinds="SubFun", ConKinds="Empty", SpecKinds="Empty", PKinds="KLayout1", MaxEdits=1,
                               NameChoices="Set0", EndForms="Set02", Contains="FALSE", DumpMod=1, SplitUnits="TRUE"),
    # every statement variant joined by ';' to its neighbours (an IF construct among them: text in brackets behind the ';')
    "Perturb_c04j_quick": dict(BASE, MaxStmts=3, MaxRich="= 1", MaxVar=1, UnitKinds="SubOnly", ConKinds="IfOnly", SpecKinds="Empty", SimpleV="SimpleAll", PKinds="KJoin",
                               NameChoices="Set0", EndForms="Set1", Contains="FALSE", DumpMod=1),
    # C06: every catalogue variant (sweep: at most one non-default variant per program) with every single mutation of that statement
    "Perturb_c06_exec_quick": dict(BASE, MaxRich="= 1", MaxVar=30, UnitKinds="SubOnly", ConKinds="SweepCons", SpecKinds="Empty", SimpleV="SimpleAll", PKinds="KMut",
                                   NameChoices="Set1", EndForms="Set1", Contains="FALSE", RichOnly="TRUE", DumpMod=157),
    "Perturb_c06_decl_quick": dict(BASE, MaxStmts=3, MaxRich="= 1", MaxVar=30, UnitKinds="SweepUnits", ConKinds="Empty", SpecKinds="Empty", DeclV="DeclAll", UseV="UseAll",
                                   FormatV="FormatAll", PKinds="KMut", NameChoices="Set1", EndForms="Set1", Contains="FALSE", RichOnly="TRUE", DumpMod=41),
    "Perturb_c06_type_quick": dict(BASE, MaxStmts=4, MaxRich="= 1", MaxVar=30, UnitKinds="ModOnly", ConKinds="Empty", SpecKinds="AllSpec", CompV="CompAll", TbindV="TbindAll",
                                   PKinds="KMut", NameChoices="Set1", EndForms="Set1", Contains="FALSE", RichOnly="TRUE", DumpMod=79),
    "Perturb_c06_exec_thorough": dict(BASE, MaxRich="= 1", MaxVar=30, UnitKinds="SubOnly", ConKinds="SweepCons", SpecKinds="Empty", SimpleV="SimpleAll", PKinds="KMut",
                                      NameChoices="Set1", EndForms="Set1", Contains="FALSE", RichOnly="TRUE", DumpMod=15),
    "Perturb_c06_spec_thorough": dict(BASE, MaxStmts=3, MaxRich="= 1", MaxVar=30, UnitKinds="SweepUnits", ConKinds="Empty", SpecKinds="AllSpec", DeclV="DeclAll", UseV="UseAll",
                                      FormatV="FormatAll", CompV="CompAll", TbindV="TbindAll", PKinds="KMut", NameChoices="Set1", EndForms="Set1", Contains="FALSE", RichOnly="TRUE", DumpMod=40),
    "Perturb_c06_sim": dict(SIM, PKinds="KMut", MaxEdits=3),
    "Perturb_c15_quick": dict(BASE, PKinds="KSent", MaxEdits=2, LabelStmts="TRUE", DumpMod=3, UnitKinds="ExhUnits0"),
    "Perturb_c15_thorough": dict(BASE, PKinds="KSent", MaxEdits=2, LabelStmts="TRUE", DumpMod=1, UnitKinds="ExhUnits0"),
    "Perturb_c15_sim": dict(SIM, PKinds="KSentCmt", MaxEdits=4),
}
SUBST = {"UnitKinds", "ConKinds", "SpecKinds", "SimpleV", "DeclV", "UseV", "FormatV", "CompV", "TbindV", "NameChoices", "EndForms", "PKinds", "InsSet"}
for name, d in TABLE.items():
    L = ["SPECIFICATION Spec", "CONSTANTS"]
    ncmt = d.pop("NCmtCls", 7 if "_c15_" in name else 9)
    ncpp = d.pop("NCppForms", 30)
    for k, v in d.items():
        if k == "MaxRich":
            L.append("  MaxRich " + v)
            continue
        L.append("  %s %s %s" % (k, "<-" if k in SUBST else "=", v))
    L += ["  NCmtCls = %d" % ncmt, "  NCppForms = %d" % ncpp, "  NGarb = 10", "  DirectiveCls <- DirCls",
          "INVARIANT WellNested", "INVARIANT GrammarInNest", "CONSTRAINT PDump"]
    open(os.path.join(SPECS, name + ".cfg"), "w").write("\n".join(L) + "\n")
print(len(TABLE), "cfg files written")
