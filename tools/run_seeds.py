#!/usr/bin/env python3
"""Run checks against the seeded changes under /verif/seeded (each applied in a scratch
worktree of /repo, never in /repo itself; FPARSER_SRC points the checks at it).
usage: run_seeds.py [--tier quick] [--checks C01,C02] [seed dirs...]   -> /verif/seeded/RESULTS.json"""
import os, sys, json, subprocess, time, argparse

ROOT = os.environ.get("VERIF_ROOT", "/verif")      # run the checks of a snapshot of /verif with VERIF_ROOT=<copy>
SEEDED = "/verif/seeded"


def sh(cmd, cwd=None, env=None, timeout=3600):
    e = dict(os.environ)
    if env:
        e.update(env)
    p = subprocess.run(cmd, shell=True, cwd=cwd, env=e, capture_output=True, text=True, timeout=timeout)
    return p.returncode, p.stdout + p.stderr


def main():
    ap = argparse.ArgumentParser()
    ap.add_argument("--tier", default="quick")
    ap.add_argument("--checks", default=None)
    ap.add_argument("seeds", nargs="*")
    a = ap.parse_args()
    seeds = a.seeds or sorted(d for d in os.listdir(SEEDED) if os.path.isdir(os.path.join(SEEDED, d)))
    respath = os.environ.get("SEED_RESULTS", os.path.join(SEEDED, "RESULTS.json"))
    results = json.load(open(respath)) if os.path.exists(respath) else {}
    for s in seeds:
        d = os.path.join(SEEDED, s)
        prop = s.split("_")[0]
        checks = a.checks.split(",") if a.checks else [prop]
        wt = "/tmp/mut_%s" % s
        sh("git -C /repo worktree remove --force %s" % wt)
        rc, out = sh("git -C /repo worktree add -q --detach %s HEAD" % wt)
        try:
            rc, out = sh("git apply --3way %s/patch.diff || git apply %s/patch.diff" % (d, d), cwd=wt)
            rc2, st = sh("git status --short", cwd=wt)
            if not st.strip() or "UU" in st:
                results.setdefault(s, {})["apply"] = "FAILED: " + out[-200:]
                print(s, "patch does not apply", flush=True)
                continue
            for c in checks:
                t0 = time.time()
                rc, out = sh("./check %s --tier %s" % (c, a.tier), cwd=ROOT,
                             env={"FPARSER_SRC": wt + "/src", "VERIF_WORK_SUFFIX": s})
                viol = [l for l in out.splitlines() if l.startswith("VIOLATION")]
                results.setdefault(s, {})[c + ":" + a.tier] = {"exit": rc, "violations": len(viol), "wall_s": round(time.time() - t0, 1),
                                                              "first": (out.split("VIOLATION", 1)[1][:400] if viol else out[-300:] if rc not in (0, 1) else "")}
                print(s, c, "exit", rc, "violations", len(viol), flush=True)
        finally:
            sh("git -C /repo worktree remove --force %s" % wt)
            sh("rm -rf %s/.work/mut_%s" % (ROOT, s))
        json.dump(results, open(respath, "w"), indent=1)
    # restore evidence written by these runs? evidence files are rewritten by the next real run


if __name__ == "__main__":
    main()
