#!/venv/bin/python
"""Development aid: show the jobs and observations of a perturbed-check replay file."""
import sys, json
sys.path.insert(0, "/verif")
from mbt.checks import perturbed
from mbt import obs, common
import os
os.makedirs(os.path.join(common.WORK, "tmp"), exist_ok=True)
d = json.load(open(sys.argv[1]))
prop = d["property"]
b = d["replay"]["beh"]
c = perturbed.build_case(prop, b)
r = obs.run_jobs({"id": 1, "jobs": c["jobs"]})
print("clause", d["replay"]["clause"], "edits", b["ed"])
only = sys.argv[2:] 
for j in c["jobs"]:
    if only and j["name"] not in only: continue
    print("=== job", j["name"], {k: v for k, v in j.items() if k not in ("src", "files")})
    print(j["src"])
    if j.get("files"): print(j["files"])
    rr = r["jobs"][j["name"]]
    print("outcome", rr["o"])
    if "leaves" in rr:
        for x in rr["leaves"]: print("   ", x)
from mbt import session
c["tid"] = 1
D = session.Digests(); ctr = [0]
ev = perturbed.events_for(prop, c, r, D, ctr)
rej, n = session.evaluate(ev)
inv = {v: k for k, v in D.ids.items()}
for tid, i, clause in rej:
    e = ev[i - 1]
    print("REJECTED event", i, clause, e)
    if e.get("law") == "obseq":
        print("  expected:", inv.get(e["val"]))
        for o in ev:
            if o["e"] == "obs" and o["key"] == e["key"]:
                print("  observed(tree %d):" % o["tree"], inv.get(o["val"]))
