#!/bin/sh
# run every check (quick) with several VERIF_SEED values; anything but exit 0 is printed
cd /verif
for sd in "$@"; do
  for p in C01 C02 C03 C04 C05 C06 C07 C08 C09 C10 C11 C12 C13 C14 C15 C16 C17 C18 C19 C20; do
    out=$(VERIF_SEED=$sd VERIF_WORK_SUFFIX=sweep$sd ./check $p 2>&1); rc=$?
    echo "seed=$sd $p exit=$rc $(echo "$out" | tail -1)"
    if [ $rc -ne 0 ]; then echo "$out" | grep -A12 "VIOLATION\|MACHINERY" | head -40; fi
  done
done
