#!/venv/bin/python
"""Try candidate catalogue variants before they are appended to mbt/catalogue.py.

usage: tools/try_variants.py candidates.json        (run with /venv/bin/python)

candidates.json: a list of {"kind": "s"|"decl"|"use"|"format"|"comp"|"tbind"|"enumr",
                            "text": "<one statement, canonical free form>", <flags of catalogue.V>}

Every candidate is put into each context its flags claim and must there
  * be accepted by fparser2 under the claimed standards (std=3: f2003 and f2008; std=8: f2008 only
    and rejected by f2003),
  * print to a fixpoint, with the token sequence preserved (the C01/C02 laws, harness lexer),
  * give a well-formed tree (C10 clauses of mbt.obs.wf),
  * with one=true: be accepted by fparser1, re-parse to a fixpoint, keep content tokens and keywords.
A candidate that fails is either not canonical text (fix the text), not valid in a claimed context
(fix the flags), something the harness lexer does not normalise (report it), or a defect of fparser
(report it: that is a finding, not a candidate)."""
import json, os, sys

sys.path.insert(0, os.path.dirname(os.path.dirname(os.path.abspath(__file__))))
from mbt import common, catalogue, lexer, fp, obs  # noqa: E402
from mbt.checks import legacy  # noqa: E402

common.use_repo_source()


def contexts(c):
    k, t = c["kind"], c["text"]
    f = catalogue.V(t, **{x: y for x, y in c.items() if x not in ("kind", "text")})
    out = []
    sub = "subroutine nm(arg1, arg2)\n%s\nend subroutine nm\n"
    fun = "function nm(arg1) result(res)\n%s\nend function nm\n"
    if k == "s":
        body = t
        if f["req"] == "do":
            body = "do i = 1, n\n%s\nend do" % t
        out.append(("sub", (fun if f["req"] == "fun" else sub) % body))
        if not f["req"]:
            out.append(("prog", "program nm\n%s\nend program nm\n" % body))
        if f["where"]:
            out.append(("where", sub % ("where (a > 0)\n%s\nend where" % t)))
        if f["forall"]:
            out.append(("forall", sub % ("forall (i = 1:n)\n%s\nend forall" % t)))
        out.append(("if", sub % ("if (x > 0) then\n%s\nend if" % body)))
    elif k == "decl":
        if f["proc"]:
            out.append(("sub", sub % t))
        if f["mod"] and not f["req"]:
            out.append(("mod", "module nm\n%s\nend module nm\n" % t))
        if f["proc"] and not f["req"]:
            out.append(("prog", "program nm\n%s\nx = 1\nend program nm\n" % t))
        if f["blk"]:
            out.append(("block", "program nm\nblock\n%s\nx = 1\nend block\nend program nm\n" % t))
        if f["bdata"]:
            out.append(("bdata", "block data nm\n%s\nend block data nm\n" % t))
    elif k == "use":
        out.append(("sub", sub % t))
        out.append(("mod", "module nm\n%s\nend module nm\n" % t))
    elif k == "format":
        out.append(("sub", sub % ("100 " + t)))
    elif k == "comp":
        out.append(("type", "module nm\ntype :: t1\n%s\nend type t1\nend module nm\n" % t))
    elif k == "tbind":
        out.append(("tbp", "module nm\ntype :: t1\ninteger :: f1\ncontains\n%s\nend type t1\nend module nm\n" % t))
    elif k == "enumr":
        out.append(("enum", "module nm\nenum, bind(c)\n%s\nend enum\nend module nm\n" % t))
    else:
        raise SystemExit("unknown kind %r" % k)
    return f, out


def check2(src, std_ok, std_bad):
    errs = []
    for std in std_bad:
        o, t = fp.parse(fp.create(std), src)
        if o["res"] == "ok":
            errs.append("accepted by %s although std=8" % std)
    for std in std_ok:
        o, t = fp.parse(fp.create(std), src)
        if o["res"] != "ok":
            errs.append("%s: %s %s" % (std, o["res"], (o.get("msg") or "")[:160].replace("\n", " | ")))
            continue
        s1 = str(t)
        w = obs.wf(t)
        if w:
            errs.append("%s: tree not well formed: %s" % (std, w))
        o2, t2 = fp.parse(fp.create(std), s1)
        if o2["res"] != "ok":
            errs.append("%s: output not accepted: %r" % (std, s1))
            continue
        if str(t2) != s1:
            errs.append("%s: not a fixpoint:\n    1: %r\n    2: %r" % (std, s1, str(t2)))
        if fp.struct(t2, False) != fp.struct(t, False):
            errs.append("%s: re-parse gives another tree" % std)
        a, b = lexer.program_tokens(src), lexer.program_tokens(s1)
        if a != b:
            i = next((j for j in range(min(len(a), len(b))) if a[j] != b[j]), min(len(a), len(b)))
            errs.append("%s: tokens differ at %d: in %s out %s\n    printed: %r" % (std, i, a[i:i + 4], b[i:i + 4], s1))
        up = obs.tci(src)
        o3, t3 = fp.parse(fp.create(std), up)
        if o3["res"] != "ok":
            errs.append("%s: upper-cased source rejected" % std)
        elif fp.struct(t3, True) != fp.struct(t, True):
            errs.append("%s: upper-cased source gives another tree" % std)
    return errs


def check1(src):
    errs = []
    for analyze in (False, True):
        r = legacy.observe({"id": 0, "jobs": [{"name": "x", "src": src, "free": True, "analyze": analyze}]})["res"][0]
        tag = "fparser1(analyze=%s)" % analyze
        if not r["ok"]:
            errs.append("%s rejects: %s" % (tag, r["err"]))
            continue
        if not r.get("ok2"):
            errs.append("%s output not accepted: %s\n    %r" % (tag, r.get("err2"), r["text"]))
            continue
        if r["text2"] != r["text"]:
            errs.append("%s not a fixpoint:\n    1: %r\n    2: %r" % (tag, r["text"], r["text2"]))
        if r["nest"] != r["nest2"]:
            errs.append("%s structure differs on re-parse" % tag)
        a, b = legacy.norm_tokens(src), legacy.norm_tokens(r["text"])
        if a != b:
            errs.append("%s content tokens differ: in %s out %s" % (tag, a, b))
        d = legacy.dropped_keywords(src, r["text"])
        if d:
            errs.append("%s dropped keywords %s: %r" % (tag, d, r["text"]))
    return errs


def main():
    cands = json.load(open(sys.argv[1]))
    bad = 0
    for n, c in enumerate(cands, 1):
        f, ctxs = contexts(c)
        errs = []
        if c["text"] != c["text"].strip() or "  " in c["text"].replace("'  '", ""):
            pass
        for name, src in ctxs:
            need08 = f["std"] == 8 or name == "block"
            e = check2(src, ["f2008"] if need08 else ["f2003", "f2008"], ["f2003"] if f["std"] == 8 else [])
            errs += ["[%s] %s" % (name, x) for x in e]
            if f["one"] and name in ("sub", "prog", "mod", "bdata", "where", "if"):
                errs += ["[%s] %s" % (name, x) for x in check1(src)]
        if errs:
            bad += 1
            print("FAIL %d %s: %s" % (n, c["kind"], c["text"]))
            for x in errs[:8]:
                print("   ", x)
        else:
            print("PASS %d %s: %s" % (n, c["kind"], c["text"]))
    print("%d candidates, %d failing" % (len(cands), bad))
    return 1 if bad else 0


if __name__ == "__main__":
    sys.exit(main())
