#!/usr/bin/env python3
"""Confirm sub-agent seeded changes: patch applies to /repo HEAD in a scratch worktree, the pinned
suite passes with it, the demonstration fails with it and passes without it.  Keeps confirmed
ones under /verif/seeded/<prop>_<i>/ (patch.diff, demo.py, meta.json)."""
import os, sys, json, subprocess, shutil

OUT = os.environ.get("SEED_OUT", "/tmp/seed_out")
OFFSET = int(os.environ.get("SEED_OFFSET", "0"))
PY = "/venv/bin/python"


def sh(cmd, cwd=None, env=None, timeout=900):
    e = dict(os.environ)
    if env:
        e.update(env)
    p = subprocess.run(cmd, shell=True, cwd=cwd, env=e, capture_output=True, text=True, timeout=timeout)
    return p.returncode, (p.stdout + p.stderr)


def verify(prop, i):
    d = os.path.join(OUT, prop)
    patch, demo, meta = (os.path.join(d, "%s%d.%s" % (n, i, x)) for n, x in (("patch", "diff"), ("demo", "py"), ("meta", "json")))
    if not (os.path.exists(patch) and os.path.exists(demo)):
        return None
    dest = "/verif/seeded/%s_%d" % (prop, i + OFFSET)
    if os.path.exists(os.path.join(dest, "meta.json")):
        return "already kept"
    wt = "/tmp/sv_%s_%d" % (prop, i + OFFSET)
    sh("git -C /repo worktree remove --force %s" % wt)
    rc, out = sh("git -C /repo worktree add -q --detach %s HEAD" % wt)
    if rc:
        return "worktree failed: " + out[-200:]
    try:
        env = {"PYTHONPATH": wt + "/src", "PYTHONHASHSEED": "0"}
        rc0, o0 = sh("%s %s" % (PY, demo), cwd=wt, env=env)
        rc, out = sh("git apply --3way %s || git apply %s" % (patch, patch), cwd=wt)
        rcs, st = sh("git status --short", cwd=wt)
        if "UU " in st or not st.strip():
            return "patch does not apply to current HEAD: " + out[-300:]
        rct, ot = sh("%s -m pytest -q -p no:cacheprovider -n 6 2>&1 | tail -1" % PY, cwd=wt, env=env)
        rc1, o1 = sh("%s %s" % (PY, demo), cwd=wt, env=env)
        rcd, diff = sh("git diff HEAD", cwd=wt)
        ok = rc0 == 0 and rc1 == 1 and "2939 passed, 24 xfailed, 1 xpassed" in ot
        res = {"demo_clean": rc0, "demo_patched": rc1, "tests": ot.strip()[-80:], "ok": ok}
        if ok:
            os.makedirs(dest, exist_ok=True)
            shutil.copy(patch, os.path.join(dest, "patch.diff"))
            shutil.copy(demo, os.path.join(dest, "demo.py"))
            m = json.load(open(meta)) if os.path.exists(meta) else {}
            m["confirmed"] = {"base": subprocess.check_output("git -C /repo rev-parse --short HEAD", shell=True, text=True).strip(),
                              "ran": ["git apply patch.diff in a scratch worktree of /repo HEAD",
                                      "pytest -q -p no:cacheprovider -n 6 -> " + res["tests"],
                                      "demo.py on clean tree -> exit %d" % rc0, "demo.py on patched tree -> exit %d" % rc1]}
            with open(os.path.join(dest, "meta.json"), "w") as f:
                json.dump(m, f, indent=1)
        return res
    finally:
        sh("git -C /repo worktree remove --force %s" % wt)


if __name__ == "__main__":
    props = sys.argv[1:] or sorted(os.listdir(OUT))
    for p in props:
        for i in (1, 2):
            try:
                r = verify(p, i)
            except Exception as e:  # noqa: BLE001
                r = "error %s" % e
            print(p, i, r, flush=True)
